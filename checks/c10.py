#!/usr/bin/env python3
"""C10: template conflict resolution: import precedence, then priority (explicit or per-alternative default), then last;
apply-imports scoping; conflict warnings never change the choice."""
import os, sys, time, json, itertools
sys.path.insert(0, os.path.join(os.path.dirname(os.path.abspath(__file__)), '..', 'lib'))
import vlib, refdoc as R, refxpath as X
from refxpath import num, s, fn, b, step, path, name, NODE, TEXTT, WILD, DOS

PROP = 'C10'
XSL = 'http://www.w3.org/1999/XSL/Transform'
NSMAP = {'p': 'u1', 'q': 'u2'}
A, Bn = name('a'), name('b')


def P(*steps):
    return path(*steps)


# pattern text -> list of (alternative AST, default priority)
PATTERNS = [
    ('a', [(P(step('child', A)), 0.0)]),
    ('b', [(P(step('child', Bn)), 0.0)]),
    ('*', [(P(step('child', WILD)), -0.5)]),
    ('p:a', [(P(step('child', name('a', 'p'))), 0.0)]),
    ('q:a', [(P(step('child', name('a', 'q'))), 0.0)]),
    ('p:*', [(P(step('child', ('nswild', 'p'))), -0.25)]),
    ('q:*', [(P(step('child', ('nswild', 'q'))), -0.25)]),
    ('node()', [(P(step('child', NODE)), -0.5)]),
    ('text()', [(P(step('child', TEXTT)), -0.5)]),
    ('@x', [(P(step('attribute', name('x'))), 0.0)]),
    ('@*', [(P(step('attribute', WILD)), -0.5)]),
    ('a/b', [(P(step('child', A), step('child', Bn)), 0.5)]),
    ('a[1]', [(P(step('child', A, num(1))), 0.5)]),
    ('a|b', [(P(step('child', A)), 0.0), (P(step('child', Bn)), 0.0)]),
    ('*|a', [(P(step('child', WILD)), -0.5), (P(step('child', A)), 0.0)]),
    ('a|*', [(P(step('child', A)), 0.0), (P(step('child', WILD)), -0.5)]),
    ('p:a|*', [(P(step('child', name('a', 'p'))), 0.0), (P(step('child', WILD)), -0.5)]),
    ('a[@x]|text()', [(P(step('child', A, P(step('attribute', name('x'))))), 0.5), (P(step('child', TEXTT)), -0.5)]),
    ('/', [(('path', 'root', []), 0.5)]),
    ('processing-instruction()', [(P(step('child', ('type', 'pi'))), -0.5)]),
    ("processing-instruction('pi')", [(P(step('child', ('pi', 'pi'))), 0.0)]),
    # unions whose alternatives target different node kinds, in both orders (rules are filed per alternative by kind and name)
    ('@x|a', [(P(step('attribute', name('x'))), 0.0), (P(step('child', A)), 0.0)]),
    ('a|@x', [(P(step('child', A)), 0.0), (P(step('attribute', name('x'))), 0.0)]),
    ('@*|*', [(P(step('attribute', WILD)), -0.5), (P(step('child', WILD)), -0.5)]),
]
PRIOS_Q = [None, 0.0, 1.0]
PRIOS_T = [None, -0.25, 0.0, 0.5, 1.0]


def the_doc():
    E = R.E
    return R.make_doc([E('r', None, [
        E('a', [('x', '1')], ['t', E('b')]), E('b'), E('p:a'), E('q:a', [('x', '2')]), R.C('c'), R.P('pi', 'd'), E('a'),
    ], ns=[('p', 'u1'), ('q', 'u2')])], name='C')


_match_cache = {}


def match_paths(ast, doc):
    k = id(ast)
    if k not in _match_cache:
        out = set()
        for Actx in doc.nodes:
            if Actx.kind == R.NS:
                continue
            for n in X.evaluate(ast, X.Ctx(Actx, ns=NSMAP)):
                out.add(doc.path(n))
        _match_cache[k] = out
    return _match_cache[k]


# module structures: name -> (list of module names in which rules may be placed, tree description)
# tree: module -> list of ('import'|'include', child) in document order; 'base' holds the catch-all rules
STRUCTURES = {
    'flat': (['main'], {'main': [('import', 'base')]}),
    'import': (['main', 'A'], {'main': [('import', 'A')], 'A': [('import', 'base')]}),
    'import2': (['main', 'A', 'B'], {'main': [('import', 'A')], 'A': [('import', 'B')], 'B': [('import', 'base')]}),
    'include': (['main', 'I'], {'main': [('import', 'base'), ('include', 'I')]}),
    'two-imports': (['main', 'A', 'B'], {'main': [('import', 'base'), ('import', 'A'), ('import', 'B')]}),
}


def precedences(tree):
    """module -> import precedence number (higher wins); included modules share the includer's."""
    prec = {}
    counter = [0]

    def visit(m, owner=None):
        for kind, c in tree.get(m, []):
            if kind == 'import':
                visit(c)
        for kind, c in tree.get(m, []):
            if kind == 'include':
                # included: same precedence as m; its own imports (none here) would be visited before
                pass
        counter[0] += 1
        prec[m] = counter[0]
        for kind, c in tree.get(m, []):
            if kind == 'include':
                prec[c] = prec[m]
    visit('main')
    return prec


def imported_into(tree, m):
    """modules whose rules were imported into module m's stylesheet element (transitively, through includes of imports too)."""
    out = []

    def walk(x):
        for kind, c in tree.get(x, []):
            if kind == 'import':
                collect(c)

    def collect(x):
        out.append(x)
        for kind, c in tree.get(x, []):
            collect(c)
    walk(m)
    # rules of modules included by m are at m's own level, not imported
    return out


def can_apply_imports(tree, m):
    """apply-imports is generated only where the catch-all module is imported into the rule's stylesheet (so that the
    chain never reaches a built-in rule, whose output would be indistinguishable from the probes of other nodes)"""
    return 'base' in imported_into(tree, m)


def build(structure, rules):
    """rules: list of (pattern index, priority, mode, module). Returns main xsl, resources, precedences, rule order.
    Within a module the rules appear in list order; an xsl:include precedes the including module's own rules."""
    mods, tree = STRUCTURES[structure]
    prec = precedences(tree)

    def module_text(m):
        parts = ['<xsl:stylesheet version="1.0" xmlns:xsl="%s" xmlns:p="u1" xmlns:q="u2">' % XSL]
        for kind, c in tree.get(m, []):
            if kind == 'import':
                parts.append('<xsl:import href="%s.xsl"/>' % c)
        if m == 'main':
            parts.append(DRIVER)
        for kind, c in tree.get(m, []):
            if kind == 'include':
                parts.append('<xsl:include href="%s.xsl"/>' % c)
        for ri, r in enumerate(rules):
            if r[3] == m:
                parts.append(rule_xml(ri, r, with_apply_imports=can_apply_imports(tree, m)))
        parts.append('</xsl:stylesheet>')
        return ''.join(parts)

    texts = {m + '.xsl': module_text(m) for m in mods if m != 'main'}
    texts['base.xsl'] = BASE
    order = [ri for ri, r in enumerate(rules) if r[3] == 'I'] + [ri for ri, r in enumerate(rules) if r[3] != 'I']
    return module_text('main'), texts, prec, order


DRIVER = '''<xsl:template name="walk"><xsl:param name="p"/>
<n p="{$p}"><xsl:apply-templates select="." mode="zz"/></n>
<xsl:for-each select="@*"><n p="{$p}/@{name()}"><xsl:apply-templates select="." mode="zz"/></n></xsl:for-each>
<xsl:for-each select="node()"><xsl:call-template name="walk"><xsl:with-param name="p" select="concat($p,'/',position()-1)"/></xsl:call-template></xsl:for-each>
</xsl:template>
<xsl:template match="/" mode="start"><out><xsl:call-template name="walk"><xsl:with-param name="p" select="''"/></xsl:call-template></out></xsl:template>
<xsl:template match="node()|@*" mode="zz" priority="-1000"><d><xsl:apply-templates select="."/></d><m><xsl:apply-templates select="." mode="m"/></m></xsl:template>
<xsl:template match="/" mode="zz" priority="-1000"><m><xsl:apply-templates select="." mode="m"/></m></xsl:template>
'''
# the catch-all rules: lowest import precedence, so the built-in rules never fire while a node is probed
BASE = ('<xsl:stylesheet version="1.0" xmlns:xsl="%s"><xsl:template match="node()|@*|/"><none/></xsl:template>'
        '<xsl:template match="node()|@*|/" mode="m"><none/></xsl:template></xsl:stylesheet>' % XSL)


def rule_xml(ri, r, with_apply_imports=True):
    pi, prio, mode, mod = r
    a = '<xsl:template match="%s"' % PATTERNS[pi][0].replace('"', '&quot;')
    if prio is not None:
        a += ' priority="%s"' % X.num_to_str(prio)
    if mode:
        a += ' mode="%s"' % mode
    body = '<xsl:apply-imports/>' if with_apply_imports else ''
    return a + '><hit r="%d">%s</hit></xsl:template>' % (ri, body)


def expected_chain(node_path, mode, rules, structure, prec, order, doc):
    """-> list of rule ids (winner, then the winner of each apply-imports), ending with 'none'"""
    mods, tree = STRUCTURES[structure]
    pos = {ri: i for i, ri in enumerate(order)}

    def best(cands):
        bestk, bestr = None, None
        for ri in cands:
            pi, prio, m, mod = rules[ri]
            if (m or '') != (mode or ''):
                continue
            # each alternative is a rule of its own
            for ast, dflt in PATTERNS[pi][1]:
                if node_path in match_paths(ast, doc):
                    k = (prec[mod], prio if prio is not None else dflt, pos[ri])
                    if bestk is None or k > bestk:
                        bestk, bestr = k, ri
        return bestr

    chain = []
    cands = list(range(len(rules)))
    cur = best(cands)
    while cur is not None:
        chain.append(cur)
        mod = rules[cur][3]
        if not can_apply_imports(tree, mod):
            break          # that rule has no apply-imports
        allowed = set(imported_into(tree, mod))
        cands = [ri for ri in range(len(rules)) if rules[ri][3] in allowed]
        cur = best(cands)
    return chain


def parse_chain(elem):
    """<d> or <m> element -> list of rule ids following nested hits; 'none' terminates"""
    chain = []
    cur = elem
    while True:
        kids = [c for c in cur.children if c.kind == R.ELEM]
        if not kids:
            return chain + ['EMPTY']
        k = kids[0]
        if k.local == 'none':
            return chain
        if k.local == 'hit':
            chain.append(int(k.attrs[0].value))
            cur = k
            if not [c for c in cur.children if c.kind == R.ELEM]:
                return chain        # rule without apply-imports (included module)
        else:
            return chain + ['?' + k.local]


def rule_sets(tier):
    thorough = tier == 'thorough'
    prios = PRIOS_T if thorough else PRIOS_Q
    npat = len(PATTERNS)
    singles = [(pi, pr) for pi in range(npat) for pr in prios]
    # one rule
    for (pi, pr) in singles:
        for mode in ('', 'm'):
            yield 'one', 'flat', [(pi, pr, mode, 'main')]
    # two rules in every structure and distribution
    core = set([0, 2, 3, 5, 6, 7, 9, 13, 14, 16, 17, 18])
    for st, (mods, tree) in STRUCTURES.items():
        for (p1, r1) in singles:
            for (p2, r2) in singles:
                if not thorough and st not in ('flat', 'import') and not (p1 in core and p2 in core):
                    continue
                for m1 in mods:
                    for m2 in mods:
                        yield 'two', st, [(p1, r1, '', m1), (p2, r2, '', m2)]
    # modes: two rules, one or both in mode m
    for (p1, r1) in singles[::2]:
        for (p2, r2) in singles[::3]:
            for md in (('m', ''), ('', 'm'), ('m', 'm')):
                yield 'modes', 'import', [(p1, r1, md[0], 'main'), (p2, r2, md[1], 'A')]
    # three rules over a pattern subset
    sub = [0, 2, 3, 5, 6, 13, 14, 16, 17] if thorough else [0, 2, 6, 16]
    tri = [(pi, pr) for pi in sub for pr in ((None, 0.0, 1.0) if thorough else (None, 0.0))]
    for st in (('flat', 'import', 'two-imports', 'include') if thorough else ('flat', 'two-imports')):
        mods = STRUCTURES[st][0]
        for a_, b_, c_ in itertools.product(tri, repeat=3):
            for dist in itertools.product(mods, repeat=3):
                if not thorough and len(set(dist)) == 1 and st != 'flat':
                    continue
                yield 'three', st, [(a_[0], a_[1], '', dist[0]), (b_[0], b_[1], '', dist[1]), (c_[0], c_[1], '', dist[2])]


def shard_main(shard, nshards, tier):
    doc = the_doc()
    xml = doc.to_xml()
    w = vlib.Worker('xdrv', stderr_path=os.path.join(vlib.BUILD, 'tmp', 'c10.%d.err' % shard), timeout=20)
    counts = {'evaluations': 0, 'transformations': 0, 'nontrivial': 0, 'rule_sets': 0, 'warn_path_transformations': 0}
    viols = []
    samples = []
    nodes = [(p, n) for p, n in doc.by_path.items() if n.kind != R.NS]
    for idx, (fam, st, rules) in enumerate(rule_sets(tier)):
        if idx % nshards != shard:
            continue
        counts['rule_sets'] += 1
        main, texts, prec, order = build(st, rules)
        # the driver enters through mode "start"
        main = main.replace('</xsl:stylesheet>', '<xsl:template match="/" priority="2000"><xsl:apply-templates select="/" mode="start"/></xsl:template></xsl:stylesheet>')
        res = ['r:%s=%s' % kv for kv in texts.items()]
        outs = []
        warn_modes = (False, True) if (idx % 4 == 0 or tier == 'thorough') else (False,)
        for warn in warn_modes:
            try:
                r = w.request('tr', main, xml, *(res + (['o:conflictwarn=1'] if warn else [])))
            except vlib.WorkerDied as wd:
                viols.append(('%s|fatal|%s' % (fam, st), {'rules': rules, 'stderr': wd.stderr_tail[-1500:]}))
                outs = None
                break
            counts['transformations'] += 1
            if warn:
                counts['warn_path_transformations'] += 1
            if r[0] != '0':
                viols.append(('%s|transform-error|%s|%s' % (fam, st, r[1][:80]), {'rules': rules, 'xsl': main, 'error': r[1]}))
                outs = None
                break
            outs.append(r[2])
        if not outs:
            continue
        desc = '; '.join('%s%s%s in %s' % (PATTERNS[pi][0].replace('|', ' U '), ' priority=%s' % X.num_to_str(pr) if pr is not None else '',
                                          ' mode=m' if md else '', mod) for pi, pr, md, mod in rules)
        if len(outs) == 2 and outs[0] != outs[1]:
            viols.append(('%s|warnings-change-choice|%s|%s' % (fam, st, desc), {'rules': rules, 'quiet': outs[0][:2000], 'warn': outs[1][:2000]}))
            continue
        out = R.parse_xml(outs[0])
        bad = False
        for nn in out.docel.children:
            if nn.kind != R.ELEM or bad:
                continue
            pth = nn.attrs[0].value or '/'
            for c in nn.children:
                if c.kind != R.ELEM:
                    continue
                mode = 'm' if c.local == 'm' else ''
                got = parse_chain(c)
                exp = expected_chain(pth, mode, rules, st, prec, order, doc)
                counts['evaluations'] += 1
                if exp:
                    counts['nontrivial'] += 1
                if got != exp and not bad:
                    bad = True
                    kind = 'wrong-rule' if (got[:1] != exp[:1]) else 'wrong-apply-imports'
                    viols.append(('%s|%s|%s|%s' % (fam, kind, st, desc),
                                  {'rules': rules, 'node': pth, 'mode': mode, 'expected_chain': exp, 'got_chain': got, 'xsl': main, 'modules': texts}))
        if len(samples) < 3 and idx % 4001 == shard:
            samples.append('%s/%s: %s' % (fam, st, desc))
    w.close()
    return {'counts': counts, 'viols': viols, 'samples': samples}


# ---------------------------------------------------------------------------------------------
# family "builtin": no catch-all. When no rule of the current mode matches, the built-in rule for the node type applies: root and
# elements process their children IN THE SAME MODE, text and attributes are copied as text, comments and PIs give nothing (5.8).
# Stylesheets: how processing in mode m starts (at the root, at the document element, at the children of the root, at the
# attributes) x one rule of mode m or none x one rule of the default mode or none; the expected tree is computed by the
# reference interpreter lib/refxslt.py.

def builtin_programs():
    import refxslt as S
    from refxpath import path, step, name, fn, NODE, TEXTT, COMMENTT, PIT, WILD, DOS

    def E(ast):
        return (ast, X.to_text(ast))

    def pat(ast, prio):
        return (ast, X.to_text(ast), [(ast, prio)])
    ROOT = ('path', 'root', [])
    ENTRIES = [('select=/', E(ROOT)), ('select=r', E(path(step('child', name('r'))))), ('select=node()', E(path(step('child', NODE)))),
               ('select=//w', E(path(DOS, step('child', name('w')), start='root'))), ('select=//@*', E(path(DOS, step('attribute', WILD), start='root')))]
    MRULES = [('none', None), ('/', pat(ROOT, 0.5)), ('r', pat(path(step('child', name('r'))), 0.0)), ('a', pat(path(step('child', name('a'))), 0.0)),
              ('*', pat(path(step('child', WILD)), -0.5)), ('text()', pat(path(step('child', TEXTT)), -0.5)),
              ('comment()', pat(path(step('child', COMMENTT)), -0.5)), ('@x', pat(path(step('attribute', name('x'))), 0.0))]
    DRULES = [('none', None), ('a', pat(path(step('child', name('a'))), 0.0)), ('*', pat(path(step('child', WILD)), -0.5)),
              ('text()', pat(path(step('child', TEXTT)), -0.5)), ('r', pat(path(step('child', name('r'))), 0.0))]
    for en, esel in ENTRIES:
        for mn, mpat in MRULES:
            for cont in ((False, True) if mpat is not None else (False,)):
                for dn, dpat in DRULES:
                    tmpl = [dict(match=(ROOT, '/', [(ROOT, 0.5)]), body=[('lre', 'out', [], [('apply', esel, 'm', [], [])])])]
                    if mpat is not None:
                        tmpl.append(dict(match=mpat, mode='m', body=[('lre', 'M', [('n', [E(fn('name'))])], [('apply', None, 'm', [], [])] if cont else [])]))
                    if dpat is not None:
                        tmpl.append(dict(match=dpat, body=[('lre', 'D', [('n', [E(fn('name'))])], [])]))
                    yield ('builtin|%s|mode-m rule %s%s|default-mode rule %s' % (en, mn, ' continuing' if cont else '', dn), {'templates': tmpl})


def builtin_docs():
    El = R.E
    return [
        R.make_doc([El('r', [('x', '1')], [El('w', None, [El('a', [('x', '2')], ['t']), El('b')]), 'u', El('a', None, [El('a', None, ['v'])])])], name='B1'),
        R.make_doc([R.C('c0'), El('r', None, ['t', R.C('c1'), R.P('p', 'd'), El('a', [('x', '3'), ('y', '4')]), El('w', None, [El('w', None, [El('a')])])]), R.P('q', 'e')], name='B2'),
    ]


def builtin_shard(shard, nshards, tier):
    import refxslt as S
    w = vlib.Worker('xdrv', stderr_path=os.path.join(vlib.BUILD, 'tmp', 'c10b.%d.err' % shard))
    counts = {'builtin_programs': 0, 'builtin_evaluations': 0, 'builtin_nontrivial': 0}
    viols = []
    docs_ = builtin_docs()
    for idx, (desc, sheet) in enumerate(builtin_programs()):
        if idx % nshards != shard:
            continue
        counts['builtin_programs'] += 1
        xsl = S.sheet_text(sheet)
        for d in docs_:
            ref = S.Interp(sheet, d).transform()
            exp = R.canon(ref)
            try:
                r = w.request('tr', xsl, d.to_xml())
            except vlib.WorkerDied as wd:
                viols.append(('%s|fatal' % desc, {'xsl': xsl, 'xml': d.to_xml(), 'stderr': wd.stderr_tail[-1500:]}))
                break
            counts['builtin_evaluations'] += 1
            if r[0] != '0':
                viols.append(('%s|transform-error' % desc, {'xsl': xsl, 'xml': d.to_xml(), 'error': r[1][:300]}))
                break
            try:
                got = R.canon(R.parse_xml(r[2]).root)
            except Exception as e:
                viols.append(('%s|unparsable-output' % desc, {'xsl': xsl, 'xml': d.to_xml(), 'output': r[2][:600], 'error': str(e)}))
                break
            if ref.children and ref.children[0].children:
                counts['builtin_nontrivial'] += 1
            if got != exp:
                viols.append(('%s|wrong-result' % desc, {'xsl': xsl, 'xml': d.to_xml(), 'doc': d.name, 'expected': json.dumps(exp)[:1500], 'got': json.dumps(got)[:1500], 'output': r[2][:800]}))
                break
    w.close()
    return {'counts': counts, 'viols': viols, 'samples': []}


def main():
    tier, rp = vlib.tier_from_argv()
    if rp:
        print(json.dumps(json.load(open(rp))['detail'], indent=1)[:6000])
        return
    t0 = time.time()
    res = vlib.run_sharded(shard_main, (tier,))
    res += vlib.run_sharded(builtin_shard, (tier,))
    counts = vlib.merge_counts([r['counts'] for r in res])
    viols = [vlib.Violation(sig, det) for r in res for sig, det in r['viols']]
    cov = {
        'evaluations': counts['evaluations'],
        'distinct_nontrivial': counts['nontrivial'],
        'rule': 'Rule sets: every single rule (21 patterns incl. unions with different per-alternative default priorities, same local name in two '
                'namespaces, prefix:*, node tests, attribute and PI patterns x priorities {-,0,1} quick / {-,-0.25,0,0.5,1} thorough x mode); '
                'EVERY ordered pair of rules in EVERY placement over 5 module structures (flat, import, import of import, include, two '
                'imports); pairs in modes; triples over a 4/9-pattern subset. Each rule writes its id and calls apply-imports; a catch-all '
                'at the lowest precedence ends every chain. For every node of the document (elements in two namespaces, attributes, text, '
                'comment, PI, root) and both modes the chain of instantiated rules is compared with the chain computed per XSLT 5.5/5.6. '
                'A quarter (quick) / all (thorough) of the sets are run through both the quiet and the conflict-reporting lookup (hook '
                'XALAN_VERIF_CONFLICT_WARNINGS); outputs must be identical. Non-trivial = some generated rule matches the node. '
                'Family builtin (no catch-all, so the built-in rules apply and must keep the mode): 5 ways to start processing in mode m x '
                '8 rules of mode m (none, /, r, a, *, text(), comment(), @x; ending or continuing) x 5 rules of the default mode x 2 '
                'documents, result tree compared with the one computed by lib/refxslt.py.',
        'samples': [x for r in res for x in r['samples']][:6] or ['none'],
        'rule_sets': counts['rule_sets'], 'transformations': counts['transformations'],
        'warn_path_transformations': counts['warn_path_transformations'],
        'builtin_programs': counts['builtin_programs'], 'builtin_evaluations': counts['builtin_evaluations'], 'builtin_nontrivial': counts['builtin_nontrivial'],
        'exhaustive': True,
    }
    vlib.finish(PROP, tier, 'exploration', cov, viols, t0, assumptions=['lib/refxpath.py for pattern matching (decided by C09)'])


if __name__ == '__main__':
    main()
