#!/usr/bin/env python3
"""C20: Xalan's containers and string class against their standard models.
Bounded exhaustive explicit-state search over operation histories (harness/c20.cpp, engine E2)."""
import os, sys, re, time, json, subprocess
sys.path.insert(0, os.path.join(os.path.dirname(os.path.abspath(__file__)), '..', 'lib'))
import vlib

# cheaper allocator bookkeeping for the search itself (no allocation stack traces, small quarantine: one replay allocates a few KB,
# so a use-after-free inside a transition is still inside the quarantine). `--replay` runs with the full default reports.
SEARCH_ASAN = ('detect_leaks=0:abort_on_error=1:allocator_may_return_null=1:detect_stack_use_after_return=0:symbolize=0:'
               'malloc_context_size=0:quarantine_size_mb=16')


def replay(path):
    rec = json.load(open(path))
    detail = rec['detail']
    text = detail.get('case', '') if isinstance(detail, dict) else str(detail)
    print('signature: %s' % rec.get('signature'))
    print(text)
    m = re.search(r'container=(\S+) history=\[([^\]]*)\]', text)
    if not m:
        print('C20 replay: the file holds no container/history (a harness-level failure, see stderr_tail above)')
        return 2
    cont, hist = m.group(1), m.group(2).split()
    env = dict(os.environ)
    env.update(vlib.ASAN_ENV)
    if cont == 'bitmap_debug':
        # the debug-assertion probe has no history to step through; the probes run on their own
        env['C20_ONLY'] = 'probe'
        p = subprocess.run([os.path.join(vlib.HBIN, 'c20'), 'quick', '0', '1'], env=env)
        return 1
    p = subprocess.run([os.path.join(vlib.HBIN, 'c20'), 'replay', cont] + hist, env=env)
    if p.returncode not in (0, 1):
        print('C20 replay: the history ended the process (rc %s): fatal outcome reproduced' % p.returncode)
        return 1
    return p.returncode


def main():
    tier, rp = vlib.tier_from_argv()
    t0 = time.time()
    if rp:
        sys.exit(replay(rp))
    # one harness process: it owns the seen-set and forks VERIF_JOBS workers per BFS level by itself (exact global de-duplication)
    counts, viols, samples = vlib.run_cpp_sharded('c20', [tier], env={'ASAN_OPTIONS': SEARCH_ASAN}, nshards=1,
                                                  timeout=7200 if tier == 'thorough' else 1800)
    per = {}
    for k, v in counts.items():
        for pre in ('states_', 'transitions_', 'depth_wanted_', 'depth_', 'ms_', 'cap_hit_', 'nontrivial_'):
            if k.startswith(pre) and k not in ('nontrivial_transitions', 'transitions_skipped_op_off'):
                per.setdefault(k[len(pre):], {})[pre.rstrip('_')] = v
                break
    cap = counts.get('cap_hit', 0) != 0
    cov = {
        'states': counts.get('states', 0),
        'transitions': counts.get('transitions', 0),
        # every transition is one history (parent history + op) executed on fresh real containers, plus the empty histories
        'traces_validated_against_impl': counts.get('transitions', 0) + counts.get('containers', 0),
        'samples': samples[:12] or ['none'],
        'evaluations': counts.get('evaluations', 0),
        'distinct_nontrivial': counts.get('nontrivial_transitions', 0),
        'nontrivial_states': counts.get('nontrivial', 0),
        'max_depth': counts.get('max_depth', 0),
        'exhaustive': not cap,
        'cap_hit': cap,
        'fatal_outcomes': counts.get('fatal_outcomes', 0),
        'ops_switched_off_after_fatal': counts.get('ops_switched_off_after_fatal', 0),
        'pruned_after_violation': counts.get('pruned_after_violation', 0),
        'per_container': per,
        'rule': 'Breadth-first search over ALL operation histories up to the per-container depth (per_container.depth; depth_wanted is the '
                'configured bound, a smaller depth or cap_hit means the run is NOT exhaustive to the bound). A state is the history; every '
                'successor is built by replaying history+[op] on fresh objects; states are merged by a 128-bit hash of the canonical key '
                '(std:: model contents + internal shape read from private fields: bucket table with stale/live entry references, free-entry '
                'list, erase count, capacities, free node/block lists). states/transitions are exact (one seen-set in the master process, no '
                'double counting across workers). After EVERY transition: return value, size/empty, full contents and order by iteration '
                '(forward, const, reverse), find()/count() of every key of the alphabet, operator[]/at/front/back, structural invariants '
                '(entries referenced from their bucket, erased flags, string terminator at length), element constructor/destructor balance '
                '(self-poisoning element), memory-manager balance after destruction, ASan/UBSan silent; replaying a history must reproduce '
                'its key. evaluations = transitions followed by the full oracle battery; distinct_nontrivial = distinct (state, op) '
                'transitions in which the op itself caused growth/reallocation, rehash, threshold compaction, reuse of an erased entry / '
                'free node / free block, element shifting or self-aliasing; nontrivial_states = states first reached by a history with such '
                'an event. A transition that disagrees is reported (minimal history first, one per signature) and its successor is not expanded; '
                'an op that ends a worker three times with the same signature is switched off for the rest of that container (then exhaustive=false).',
    }
    vs = [vlib.Violation(v.signature, v.detail) for v in viols]
    vlib.finish('C20', tier, 'model_checking', cov, vs, t0,
                assumptions=['libstdc++ containers and std::u16string are the specification',
                             'preconditions follow the library\'s own assertions (e.g. substring position < source length); std:: undefined '
                             'behaviour (inserting a range of a vector into itself) is outside the alphabet',
                             'small-scope: 4 keys onto 2 hash residues, 3 values, 3 positions, depths per container in per_container',
                             'a 128-bit state hash stands for the canonical key'])


main()
