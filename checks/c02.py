#!/usr/bin/env python3
"""C02: XPath values vs the reference evaluator, exhaustively over enumerated ASTs x documents x every context node."""
import os, sys, time, itertools, struct, math, json
sys.path.insert(0, os.path.join(os.path.dirname(os.path.abspath(__file__)), '..', 'lib'))
import vlib, refdoc as R, refxpath as X, xpgen as G, xpparse
from refxpath import num, s, fn, b, step, path, name, NODE, TEXTT, WILD, DOS

PROP = 'C02'


# ---------------------------------------------------------------------------------------------
# case generation: yields (family, text, ast_or_None(reject expected), ctxdep)

def ctx_dependent(e):
    k = e[0]
    if k in ('num', 'str'):
        return False
    if k == 'var':
        return False
    if k == 'path':
        return True
    if k == 'fn':
        if e[1] in ('last', 'position', 'lang') or (not e[2] and e[1] in ('string', 'number', 'name', 'local-name',
                                                                          'namespace-uri', 'string-length', 'normalize-space')):
            return True
        if e[1] == 'id':
            return True
        return any(ctx_dependent(a) for a in e[2])
    if k == 'bin':
        return ctx_dependent(e[2]) or ctx_dependent(e[3])
    if k in ('neg', 'group'):
        return ctx_dependent(e[1])
    if k == 'filter':
        return ctx_dependent(e[1])
    return True


def gen_cases(tier):
    thorough = tier == 'thorough'
    nums, strs, bools, sets = G.number_atoms(), G.string_atoms(), G.bool_atoms(), G.nodeset_atoms()
    atoms = nums + strs + bools + sets

    def case(fam, ast, **kw):
        return (fam, X.to_text(ast, kw.get('abbrev', True), kw.get('tight', False)), ast)

    # 0. every atom alone (literals and the simplest expressions as the top-level node)
    for a in atoms:
        yield case('atom', a)
    # 1. every single step: 13 axes x 10 node tests x 15 predicate lists, abbreviated and unabbreviated
    for st in G.steps():
        yield case('step1', path(st))
        yield case('step1-unabbrev', path(st), abbrev=False)
    # 2. two-step paths
    t5 = G.node_tests(False)
    p4 = G.predicates(False)
    first = list(G.steps(tests=t5, preds=(p4 if thorough else [[]])))
    second = list(G.steps(tests=t5, preds=p4))
    for s1 in first:
        for s2 in second:
            yield case('step2', path(s1, s2))
    # 3. abbreviations and root-anchored paths
    for st in G.steps(axes=['child', 'attribute', 'descendant', 'following-sibling'], tests=t5, preds=G.predicates()):
        yield case('abbrev', path(DOS, st, start='root'))
        yield case('abbrev', path(DOS, st))
        yield case('abbrev', path(st, start='root'))
        yield case('abbrev', path(step('parent', NODE), st))
        yield case('abbrev', path(step('child', name('a')), DOS, st))
    yield case('abbrev', ('path', 'root', []))
    # 4. filter expressions
    for P in sets:
        for pr in G.predicates():
            if not pr:
                continue
            yield case('filter', ('filter', ('group', P), pr))
            for st in G.steps(axes=['child', 'attribute', 'parent', 'preceding-sibling'], tests=t5[:3], preds=[[], [num(1)]]):
                yield case('filter', ('path', ('filter', ('group', P), pr), [st]))
    # 5. every binary operator over every pair of atoms (all type pairs)
    for op in G.BIN_OPS:
        for l in atoms:
            for r in atoms:
                yield case('binop', b(op, l, r))
                if thorough or (l in sets) != (r in sets):
                    yield case('binop-tight', b(op, l, r), tight=True)
    for l in sets:
        for r in sets:
            yield case('union', b('|', l, r))
            for r2 in sets[:4]:
                yield case('union', b('|', b('|', l, r), r2))
    # 6. unary minus
    for a in atoms:
        yield case('unary', ('neg', a))
        yield case('unary', ('neg', ('neg', a)))
        yield case('unary', b('-', num(1), ('neg', a)))
    # 7. core function library
    for c in function_cases(thorough):
        yield case('func', c)
    # 7b. bundled extension functions: EXSLT sets/math/strings/common/dynamic and xalan: set functions
    A_ = path(step('child', name('a')))
    B_ = path(step('child', name('b')))
    ALL_ = path(DOS, step('child', WILD), start='root')
    ATT_ = path(DOS, step('attribute', name('x')), start='root')
    EMP_ = path(step('child', name('nosuch')))
    TXT_ = path(DOS, step('child', TEXTT), start='root')
    nsx = [A_, B_, ALL_, ATT_, EMP_, TXT_, path(step('self', NODE)), path(step('child', WILD))]
    for f2 in ('set:difference', 'set:intersection', 'set:has-same-node', 'set:leading', 'set:trailing', 'xalan:difference',
               'xalan:intersection', 'xalan:hasSameNodes'):
        for x1 in nsx:
            for x2 in nsx:
                yield case('ext', fn(f2, x1, x2))
    for f1 in ('set:distinct', 'xalan:distinct', 'math:min', 'math:max', 'math:highest', 'math:lowest', 'str:concat'):
        for x1 in nsx:
            yield case('ext', fn(f1, x1))
            yield case('ext', fn('count', fn(f1, x1)) if f1 in ('set:distinct', 'xalan:distinct', 'math:highest', 'math:lowest') else fn('string', fn(f1, x1)))
    for v in nums:
        yield case('ext', fn('math:abs', v))
        yield case('ext', fn('str:padding', v, s('ab')))
        yield case('ext', fn('str:padding', v))
    for v in atoms:
        yield case('ext', fn('exsl:object-type', v))
    for text in ('count ( // a )', 'a | b', '1 + 2 * 3', "'s'", '..', '@ x', 'last ( )', 'a [ 1 ]', '1 +', ') (', ''):
        yield case('ext', fn('dyn:evaluate', s(text)))
        if text not in ('1 +', ') (', ''):
            yield case('ext', fn('xalan:evaluate', s(text)))
    # 8. precedence and associativity: flat sequences printed without parentheses
    ops = G.BIN_OPS
    small = [num(1), num(2), num(0), s('a'), fn('true'), path(step('child', name('a')))] if thorough else \
            [num(1), num(2), num(0), fn('true')]
    for o1 in ops:
        for o2 in ops:
            for trio in itertools.product(small, repeat=3):
                ast = G.flat_to_ast(list(trio), [o1, o2])
                yield ('prec', G.flat_text([X.to_text(t) for t in trio], [o1, o2]), ast)
    for o1 in ops:
        for o2 in ops:
            for o3 in (ops if thorough else ['or', '=', '<', '-', 'div']):
                quad = [num(3), num(2), num(1), num(2)]
                ast = G.flat_to_ast(quad, [o1, o2, o3])
                yield ('prec', G.flat_text([X.to_text(t) for t in quad], [o1, o2, o3]), ast)
    # 9. rejection / acceptance of raw token strings
    toks = ['a', '*', '@', '::', '/', '//', '.', '..', '(', ')', '[', ']', ',', '|', '+', '-', '=', '<', '1', "'s'",
            'and', 'div', 'child', 'node', 'text', 'last', 'count', '!=', 'self', 'mod']
    maxlen = 4 if thorough else 3
    for n in range(1, maxlen + 1):
        for seq in itertools.product(toks, repeat=n):
            try:
                ast = xpparse.parse_tokens(list(seq))
            except xpparse.Reject:
                ast = None
            yield ('tokens', ' '.join(seq), ast)


def function_cases(thorough):
    A = path(step('child', name('a')))
    Bn = path(step('child', name('b')))
    X_ = path(step('attribute', name('x')))
    EMPTY = path(step('child', name('nosuch')))
    SELF = path(step('self', NODE))
    ALL = path(DOS, step('child', NODE), start='root')
    ALLATT = path(DOS, step('attribute', WILD), start='root')
    nodesets = [A, Bn, X_, EMPTY, SELF, ALL, ALLATT, path(step('child', NODE)), path(DOS, step('child', name('a', 'p')), start='root'),
                path(step('namespace', WILD)), path(step('child', ('type', 'pi'))), path(step('child', ('type', 'comment')))]
    strs = [s(''), s('a'), s('abc'), s('  a  b '), s('12345'), s('t'), s('\t a\n'), s('aXbXc'), s('1.5'), s('-0'), s('en'), s('EN-us'), s('i1 i3')]
    numv = [num(-1, '-1'), num(0), num(0.5, '0.5'), num(1), num(1.5, '1.5'), num(2), num(3), num(2.5, '2.5'), b('div', num(0), num(0)),
            b('div', num(1), num(0)), ('neg', b('div', num(1), num(0))), ('neg', num(0.5, '0.5')), ('neg', num(0.2, '0.2')), num(10), num(1e10, '10000000000')]
    anyv = [num(0), num(1.5, '1.5'), b('div', num(0), num(0)), s(''), s('a'), s('0'), s(' 1 '), fn('true'), fn('false'), A, EMPTY, X_, SELF]
    out = []
    out += [fn('last'), fn('position')]
    for f in ('count', 'sum'):
        out += [fn(f, n) for n in nodesets]
    for f in ('local-name', 'namespace-uri', 'name'):
        out.append(fn(f))
        out += [fn(f, n) for n in nodesets]
    for f in ('string', 'number', 'string-length', 'normalize-space'):
        out.append(fn(f))
        out += [fn(f, v) for v in anyv + strs + (numv if f in ('string', 'number') else [])]
    for f in ('boolean', 'not'):
        out += [fn(f, v) for v in anyv + numv]
    for f in ('floor', 'ceiling', 'round'):
        out += [fn(f, v) for v in numv + [s('1.5'), s('x'), A, fn('true')]]
        # observe the sign of zero
        out += [b('div', num(1), fn(f, v)) for v in [('neg', num(0.5, '0.5')), ('neg', num(0.2, '0.2')), num(0.2, '0.2'), ('neg', num(0)), num(0)]]
    out += [fn('id', v) for v in [s('i1'), s('i3 i1'), s(' i2  i2 '), s('nosuch'), X_, path(DOS, step('attribute', name('x')), start='root'), SELF, num(1)]]
    # the value of a node-set valued call observed through count / string / sum / name: duplicates and order are visible there
    for idv in [s('i3 i1'), s(' i2  i2 '), s('i3 i1 i3 i2'), X_]:
        out += [fn('count', fn('id', idv)), fn('string', fn('id', idv)), fn('name', fn('id', idv)), fn('sum', fn('id', idv)),
                fn('count', b('|', fn('id', idv), fn('id', s('i1'))))]
    out += [fn('lang', v) for v in [s('en'), s('EN'), s('en-US'), s('en-us'), s('e'), s(''), s('fr')]]
    two = [s(''), s('a'), s('abc'), s('b'), s('c'), s('bc'), s('aXbXc'), s('X'), A, num(1)]
    for f in ('starts-with', 'contains', 'substring-before', 'substring-after'):
        out += [fn(f, x, y) for x in two for y in two]
    # every haystack of length <= 5 (6 thorough) and every needle of length 1..3 over {a, b}: needles that overlap themselves,
    # matches that start inside a failed partial match, matches at the very end
    import itertools as _it
    hay = [''.join(t) for n in range(1, 7 if thorough else 6) for t in _it.product('ab', repeat=n)]
    needles = [''.join(t) for n in range(1, 4) for t in _it.product('ab', repeat=n)]
    for f in ('contains', 'substring-before', 'substring-after', 'starts-with'):
        out += [fn(f, s(h), s(nd)) for h in hay for nd in needles if len(nd) <= len(h)]
    out += [fn('concat', x, y) for x in two[:5] for y in two[:5]]
    out += [fn('concat', s('a'), num(1), fn('true')), fn('concat', A, s('-'), X_, s('-'), EMPTY)]
    starts = numv
    for st in starts:
        out.append(fn('substring', s('12345'), st))
        for ln in (numv if thorough else numv[:11]):
            out.append(fn('substring', s('12345'), st, ln))
    out += [fn('substring', A, num(1), num(1)), fn('substring', s(''), num(1), num(1))]
    tr = [s(''), s('a'), s('abc'), s('aabbcc'), s('bar'), s('ABC'), s('--aaa--')]
    out += [fn('translate', x, y, z) for x in tr for y in tr[:5] for z in tr[:6]]
    out += [fn('true'), fn('false')]
    return out


# ---------------------------------------------------------------------------------------------
# comparison

def ref_result(ast, ctx, doc):
    try:
        v = X.evaluate(ast, ctx)
    except X.XPathError as e:
        return 'e\x1f'
    t = X.type_of(v)
    if t == 'b':
        return 'b\x1f' + ('1' if v else '0')
    if t == 'n':
        if v != v:
            return 'n\x1fnan'
        return 'n\x1f%016x' % struct.unpack('>Q', struct.pack('>d', v))[0]
    if t == 's':
        return 's\x1f' + v
    return 'ns\x1f' + ' '.join(sorted(set(doc.path(n) for n in v)))


def norm_got(g):
    if g.startswith('n\x1f'):
        bits = int(g[2:], 16)
        d = struct.unpack('>d', struct.pack('>Q', bits))[0]
        if d != d:
            return 'n\x1fnan'
    if g.startswith('e\x1f') or g.startswith('ce\x1f'):
        return 'e\x1f'
    if g.startswith('ns\x1f'):
        # C02 decides the SET of nodes; order and duplicates of the delivered list are C12's business
        return 'ns\x1f' + ' '.join(sorted(set(g[3:].split())))
    return g


def diff_kind(exp, got, doc):
    et, gt = exp.split('\x1f')[0], got.split('\x1f')[0]
    if et != gt:
        if gt == 'e':
            return 'unexpected-error'
        if et == 'e':
            return 'accepted-invalid:' + gt
        return 'wrong-type:%s-for-%s' % (gt, et)
    if et == 'ns':
        e, g = exp[3:].split(), got[3:].split()
        if sorted(e) == sorted(g):
            return 'nodeset-order'
        extra = [x for x in g if x not in e]
        missing = [x for x in e if x not in g]
        if len(g) != len(set(g)):
            return 'nodeset-duplicates'
        if extra and not missing and all('/@xmlns' in x for x in extra):
            return 'nodeset-extra-namespace-decls'
        if extra and not missing:
            return 'nodeset-extra'
        if missing and not extra:
            return 'nodeset-missing'
        return 'nodeset-different'
    if et == 'n':
        try:
            ev = struct.unpack('>d', struct.pack('>Q', int(exp[2:], 16)))[0] if exp[2:] != 'nan' else math.nan
            gv = struct.unpack('>d', struct.pack('>Q', int(got[2:], 16)))[0] if got[2:] != 'nan' else math.nan
            if ev == gv:
                return 'number-zero-sign'
            if ev != ev or gv != gv:
                return 'number-nan'
            if math.isinf(ev) or math.isinf(gv):
                return 'number-inf'
            if abs(ev - gv) <= 1e-9 * max(1.0, abs(ev)):
                return 'number-inexact'
        except Exception:
            pass
        return 'number-wrong'
    return {'b': 'boolean-wrong', 's': 'string-wrong', 'e': 'both-error'}.get(et, 'different')


DOCS = None


def shard_main(shard, nshards, tier, mode='set'):
    docs = G.docs()
    w = vlib.Worker('xdrv', stderr_path=os.path.join(vlib.BUILD, 'tmp', 'c02.%d.err' % shard))
    nsargs = ['%s=%s' % kv for kv in sorted(G.NSMAP.items())]
    nodes_of = []
    for i, d in enumerate(docs):
        r = w.request('doc', 'd%d' % i, 'st', d.to_xml())
        assert r[0] == 'ok', r
        paths = r[1].split(' ')
        assert sorted(paths) == sorted(d.by_path.keys()), (d.name, sorted(paths), sorted(d.by_path.keys()))
        nodes_of.append([d.by_path[p] for p in paths])
    counts = {'evaluations': 0, 'cases': 0, 'nontrivial': 0, 'fatal': 0}
    fam_counts = {}
    viols = []
    samples = []
    outcomes = set()
    ORDER_FAMS = ('step1', 'step2', 'abbrev', 'filter', 'union', 'func')      # func: id() and other node-set valued calls
    for idx, (fam, text, ast) in enumerate(gen_cases(tier)):
        if idx % nshards != shard:
            continue
        if mode == 'order' and fam not in ORDER_FAMS:
            continue
        counts['cases'] += 1
        fam_counts[fam] = fam_counts.get(fam, 0) + 1
        dep = ast is None or ctx_dependent(ast)
        use_docs = range(len(docs)) if dep else [0]
        if fam in ('tokens', 'prec', 'binop-tight'):
            use_docs = [0]
        elif fam in ('binop', 'step2', 'filter') and dep:
            use_docs = [0, 4] if fam != 'step2' else [0, 1]
        first_bad = None
        nontriv = False
        for di in use_docs:
            d = docs[di]
            try:
                r = w.request('xpall', 'd%d' % di, text, *nsargs)
            except vlib.WorkerDied as wd:
                counts['fatal'] += 1
                viols.append(('%s|fatal|%s' % (fam, text), {'expr': text, 'doc': d.name, 'how': str(wd.rc), 'stderr': wd.stderr_tail[-1500:]}))
                # reload documents in the restarted driver
                for j, dd in enumerate(docs):
                    w.request('doc', 'd%d' % j, 'st', dd.to_xml())
                first_bad = 'fatal'
                break
            if r[0] == 'ce':
                got_all = ['e\x1f'] * len(nodes_of[di])
            elif r[0] == 'ok':
                got_all = r[1:]
            else:
                got_all = ['e\x1f'] * len(nodes_of[di])
            ctxnodes = nodes_of[di] if dep else nodes_of[di][:1]
            for ni, node in enumerate(ctxnodes):
                counts['evaluations'] += 1
                if ast is None:
                    exp = 'e\x1f'
                else:
                    exp = ref_result(ast, X.Ctx(node, ns=G.NSMAP), d)
                got = norm_got(got_all[ni])
                if mode == 'order':
                    # C12: the delivered LIST must be duplicate free and in document order; value differences are C02's
                    if not (exp.startswith('ns\x1f') and got.startswith('ns\x1f')) or exp != got:
                        continue
                    raw = got_all[ni][3:].split()
                    want = [d.path(n) for n in X.evaluate(ast, X.Ctx(node, ns=G.NSMAP))]
                    if len(raw) >= 2:
                        nontriv = True
                    if raw != want and first_bad is None:
                        kind = 'nodeset-duplicates' if len(raw) != len(set(raw)) else 'nodeset-order'
                        first_bad = kind
                        viols.append(('%s|%s|%s' % (fam, kind, text),
                                      {'expr': text, 'doc': d.name, 'xml': d.to_xml(), 'context': d.path(node),
                                       'expected': ' '.join(want), 'got': ' '.join(raw)}))
                    continue
                if exp != 'e\x1f' and exp not in ('ns\x1f', 'b\x1f0', 's\x1f'):
                    nontriv = True
                outcomes.add(exp[:40])
                if exp != got and first_bad is None:
                    kind = diff_kind(exp, got, d)
                    first_bad = kind
                    viols.append(('%s|%s|%s' % (fam, kind, text),
                                  {'expr': text, 'doc': d.name, 'xml': d.to_xml(), 'context': d.path(node),
                                   'expected': exp.replace('\x1f', ':'), 'got': got_all[ni].replace('\x1f', ':')}))
            if first_bad:
                break
        if nontriv or (ast is None):
            counts['nontrivial'] += 1
        if len(samples) < 3 and idx % 9973 == shard:
            samples.append('%s: %s' % (fam, text))
    w.close()
    return {'counts': counts, 'fam': fam_counts, 'viols': viols, 'samples': samples, 'outcomes': len(outcomes)}


# ---------------------------------------------------------------------------------------------
# family "vars": variable bindings of every type, evaluated in situ (the XPathEvaluator API has no variable bindings)

VARS_PATH_TEMPLATES = """<xsl:template name="path"><xsl:choose><xsl:when test="not(..)">/</xsl:when>
<xsl:when test="count(.|../@*)=count(../@*)"><xsl:for-each select=".."><xsl:call-template name="path1"/></xsl:for-each>/@<xsl:value-of select="name()"/></xsl:when>
<xsl:otherwise><xsl:call-template name="path1"/></xsl:otherwise></xsl:choose></xsl:template>
<xsl:template name="path1"><xsl:if test=".."><xsl:for-each select=".."><xsl:call-template name="path1"/></xsl:for-each>/<xsl:value-of select="count(preceding-sibling::node())"/></xsl:if></xsl:template>
"""
VAR_NAMES = ['$n', '$m', '$s', '$k', '$t', '$e', '$w']


def vars_cases(tier):
    thorough = tier == 'thorough'
    out = list(VAR_NAMES)
    OPS = ['or', 'and', '=', '!=', '<', '<=', '>', '>=', '+', '-', '*', 'div', 'mod', '|']
    for a in VAR_NAMES:
        for b_ in VAR_NAMES:
            for op in OPS:
                if op == '|' and not (a in ('$n', '$m', '$e') and b_ in ('$n', '$m', '$e')):
                    continue        # a union of a non-node-set is an error: tried once below
                out.append('%s %s %s' % (a, op, b_))
    PREDS = ['[1]', '[last()]', '[position()=$k]', '[$k]', '[@x]', '[@x=$s]', '[$t]', '[not($t)]', '[.=$n]', '[count(.|$m)=count($m)]', '[$w]', '[position()<$k+1][last()]',
             '[$e]', '[$s]', '[name()=$s]']
    for base in ['$n', '$m', '($n|$m)', '$e', '($m)']:
        for p_ in PREDS:
            out.append(base + p_)
    AXES = ['child', 'descendant', 'parent', 'ancestor', 'following-sibling', 'preceding-sibling', 'following', 'preceding', 'attribute', 'self',
            'descendant-or-self', 'ancestor-or-self']
    TESTS = ['*', 'node()', 'b', 'text()']
    for base in ['$n', '$m'] + (['($n|$m)', '$n[1]'] if thorough else []):
        for ax in AXES:
            for t in TESTS:
                out.append('%s/%s::%s' % (base, ax, t))
        out += [base + '//b', base + '/..', base + '/@x', base + '/b[1]', base + '/b[last()]/@x', base + '/*[$k]', base + '/*[.=$s]']
    FUNCS = ['count($n)', 'count($m)', 'count($e)', 'sum($n/@x)', 'sum($m)', 'string($n)', 'string($m)', 'string($e)', 'name($m)', 'local-name($e)', 'name($n)',
             'concat($s,$k)', 'concat($n,$t,$e)', 'substring($s,$k)', 'substring($n,$k,$k)', 'boolean($e)', 'boolean($n)', 'boolean($s)', 'boolean($k)', 'number($s)',
             'number($n)', 'number($t)', 'not($n)', 'not($e)', 'string-length($s)', 'string-length($n)', 'normalize-space($s)', "translate($s,$s,'z')", 'contains($s,$s)',
             'contains($n,$s)', 'starts-with(name($n),$s)', 'floor($k div 3)', 'round($k)', 'ceiling($w)', 'lang($s)', 'id($s)', 'id($n)', 'string($k)', 'string($t)',
             'string($w)', '$k + count($n)', '-$k', '- $n', '$n = $n', '$n != $n', '$e = $e', '$m = $s', '$m < $k', '$n > $m', 'count($n | $m | $e)', 'count($n[@x] | $m)',
             '$s | $n', '$k/b', '$t[1]', 'count($s)', 'sum($s)', '$undefined', '$n/$s', 'name($k)']
    out += FUNCS
    seen = set()
    res = []
    for t in out:
        if t not in seen:
            seen.add(t)
            res.append(t)
    return res


def vars_shard(shard, nshards, tier):
    import xpparse
    docs = [d for d in G.docs()][:3 if tier != 'thorough' else 5]
    w = vlib.Worker('xdrv', stderr_path=os.path.join(vlib.BUILD, 'tmp', 'c02v.%d.err' % shard))
    counts = {'evaluations': 0, 'cases': 0, 'nontrivial': 0, 'fatal': 0, 'vars_transformations': 0}
    viols = []
    samples = []
    cases = vars_cases(tier)
    NS = ' '.join('xmlns:%s="%s"' % kv for kv in sorted(G.NSMAP.items()) if kv[0] in ('p', 'q'))
    HEAD = ('<xsl:stylesheet version="1.0" xmlns:xsl="http://www.w3.org/1999/XSL/Transform" %s>'
            '<xsl:variable name="n" select="//a"/><xsl:variable name="s" select="\'b\'"/><xsl:variable name="k" select="2"/>'
            '<xsl:variable name="t" select="true()"/><xsl:variable name="e" select="/.."/><xsl:variable name="w" select="$k + count($e) div 2 + 0.5"/>' % NS)

    def esc(t):
        return t.replace('&', '&amp;').replace('<', '&lt;').replace('"', '&quot;')

    def sheet(items):
        body = []
        for i, (text, kind) in items:
            if kind == 'ns':
                body.append('<e i="%d"><xsl:for-each select="%s"><h><xsl:call-template name="path"/></h></xsl:for-each></e>' % (i, esc(text)))
            else:
                body.append('<e i="%d" s="{%s}" b="{boolean(%s)}"/>' % (i, esc(text).replace('{', '{{').replace('}', '}}'), esc(text).replace('{', '{{').replace('}', '}}')))
        return (HEAD + '<xsl:template match="/"><out><xsl:for-each select="/|//node()|//@*"><xsl:variable name="m" select=".//b|@*"/><c>%s</c></xsl:for-each></out></xsl:template>%s</xsl:stylesheet>'
                % (''.join(body), VARS_PATH_TEMPLATES))

    def ref_vars(d, node):
        root = d.root
        c0 = X.Ctx(root, ns=G.NSMAP)
        v = {'n': X.evaluate(xpparse.parse_text('//a'), c0), 's': 'b', 'k': 2.0, 't': True, 'e': X.NodeSet([])}
        v['w'] = 2.0 + 0.0 / 2 + 0.5
        v['m'] = X.evaluate(xpparse.parse_text('.//b|@*'), X.Ctx(node, ns=G.NSMAP))
        return v

    B = 24
    batches = [list(enumerate(cases))[i:i + B] for i in range(0, len(cases), B)]
    jobs = [(di, bi) for di in range(len(docs)) for bi in range(len(batches))]
    for ji, (di, bi) in enumerate(jobs):
        if ji % nshards != shard:
            continue
        d = docs[di]
        ctxnodes = [n for n in d.nodes if n.kind != R.NS]
        # the reference decides the static type of each expression (and whether it is an error) at the root
        items, errors, asts = [], [], {}
        for i, text in batches[bi]:
            try:
                ast = xpparse.parse_text(text)
            except Exception:
                ast = None
            asts[i] = ast
            kind = None
            if ast is not None:
                try:
                    v0 = X.evaluate(ast, X.Ctx(d.root, 1, len(ctxnodes), ref_vars(d, d.root), G.NSMAP))
                    kind = 'ns' if isinstance(v0, X.NodeSet) else 'v'
                except X.XPathError:
                    kind = None
            if kind is None:
                errors.append((i, text))
            else:
                items.append((i, (text, kind)))
        if di == 0:
            counts['cases'] += len(batches[bi])
        try:
            r = w.request('tr', sheet(items), d.to_xml())
            counts['vars_transformations'] += 1
        except vlib.WorkerDied as wd:
            counts['fatal'] += 1
            viols.append(('vars|fatal|batch %d' % bi, {'doc': d.name, 'stderr': wd.stderr_tail[-1500:], 'expressions': [t for _, (t, _) in items]}))
            continue
        if r[0] != '0':
            # find the expression that makes the batch fail: each one alone
            for i, (text, kind) in items:
                r1 = w.request('tr', sheet([(i, (text, kind))]), d.to_xml())
                counts['vars_transformations'] += 1
                if r1[0] != '0':
                    viols.append(('vars|unexpected-error|%s' % text, {'expr': text, 'doc': d.name, 'xml': d.to_xml(), 'error': r1[1][:300]}))
            continue
        out = R.parse_xml(r[2])
        cs = [c for c in out.docel.children if c.kind == R.ELEM]
        if len(cs) != len(ctxnodes):
            viols.append(('vars|context-count|batch %d' % bi, {'doc': d.name, 'expected': len(ctxnodes), 'got': len(cs)}))
            continue
        bad = set()
        for pos, (node, c) in enumerate(zip(ctxnodes, cs)):
            vars_ = ref_vars(d, node)
            got = {}
            for e in c.children:
                a = dict((x.local, x.value) for x in e.attrs)
                got[int(a['i'])] = (a, [h.string_value().strip() for h in e.children])
            for i, (text, kind) in items:
                if i in bad:
                    continue
                counts['evaluations'] += 1
                try:
                    v = X.evaluate(asts[i], X.Ctx(node, pos + 1, len(ctxnodes), vars_, G.NSMAP))
                except X.XPathError as ex:
                    viols.append(('vars|reference-error-in-some-context|%s' % text, {'expr': text, 'doc': d.name, 'context': d.path(node), 'error': str(ex)}))
                    bad.add(i)
                    continue
                a, hs = got[i]
                if kind == 'ns':
                    exp = sorted(d.path(n) for n in v)
                    if exp:
                        counts['nontrivial'] += 1
                    if sorted(hs) != exp:
                        bad.add(i)
                        viols.append(('vars|nodeset-%s|%s' % ('extra' if set(exp) < set(hs) else ('missing' if set(hs) < set(exp) else 'different'), text),
                                      {'expr': text, 'doc': d.name, 'xml': d.to_xml(), 'context': d.path(node), 'expected': exp, 'got': hs}))
                else:
                    exp_s, exp_b = X.to_str(v), ('true' if X.to_bool(v) else 'false')
                    if exp_s not in ('', 'false', 'NaN'):
                        counts['nontrivial'] += 1
                    if a.get('s') != exp_s or a.get('b') != exp_b:
                        bad.add(i)
                        viols.append(('vars|%s-wrong|%s' % (X.type_of(v), text),
                                      {'expr': text, 'doc': d.name, 'xml': d.to_xml(), 'context': d.path(node), 'expected': [exp_s, exp_b], 'got': [a.get('s'), a.get('b')]}))
        # expressions the reference rejects (type errors, unknown variable): each alone must fail
        for i, text in errors:
            counts['evaluations'] += 1
            counts['nontrivial'] += 1
            r1 = w.request('tr', sheet([(i, (text, 'v'))]), d.to_xml())
            counts['vars_transformations'] += 1
            if r1[0] == '0':
                viols.append(('vars|accepted-invalid|%s' % text, {'expr': text, 'doc': d.name, 'output': r1[2][:300]}))
        if len(samples) < 2:
            samples.append('vars: %s ... on %s x %d context nodes' % (batches[bi][0][1], d.name, len(ctxnodes)))
    w.close()
    return {'counts': counts, 'fam': {'vars': counts['cases']}, 'viols': viols, 'samples': samples, 'outcomes': 0}


def replay(path_):
    rec = json.load(open(path_))
    det = rec['detail']
    if rec.get('signature', '').startswith('vars|'):
        # in-situ family: the expression alone, at every node of the named document, with the family's variable bindings
        d = [x for x in G.docs() if x.name == det.get('doc')][0]
        w = vlib.Worker('xdrv')
        xsl = ('<xsl:stylesheet version="1.0" xmlns:xsl="http://www.w3.org/1999/XSL/Transform" xmlns:p="u1" xmlns:q="u2"><xsl:variable name="n" select="//a"/>'
               '<xsl:variable name="s" select="\'b\'"/><xsl:variable name="k" select="2"/><xsl:variable name="t" select="true()"/><xsl:variable name="e" select="/.."/>'
               '<xsl:variable name="w" select="$k + count($e) div 2 + 0.5"/><xsl:template match="/"><out><xsl:for-each select="/|//node()|//@*"><xsl:variable name="m" select=".//b|@*"/>'
               '<c s="{%s}"/></xsl:for-each></out></xsl:template></xsl:stylesheet>' % det['expr'].replace('&', '&amp;').replace('<', '&lt;').replace('"', '&quot;'))
        print(w.request('tr', xsl, d.to_xml()))
        print('expected', det.get('expected'), 'context', det.get('context'))
        w.close()
        return
    w = vlib.Worker('xdrv')
    print(w.request('doc', 'd', 'st', det['xml']))
    print(w.request('xp', 'd', det['context'], det['expr'], *['%s=%s' % kv for kv in sorted(G.NSMAP.items())]))
    print('expected', det['expected'])
    w.close()


def main():
    tier, rp = vlib.tier_from_argv()
    if rp:
        return replay(rp)
    t0 = time.time()
    res = vlib.run_sharded(shard_main, (tier,)) + vlib.run_sharded(vars_shard, (tier,))
    counts = vlib.merge_counts([r['counts'] for r in res])
    fam = vlib.merge_counts([r['fam'] for r in res])
    viols = [vlib.Violation(sig, det) for r in res for sig, det in r['viols']]
    samples = [x for r in res for x in r['samples']][:8]
    cov = {
        'evaluations': counts['evaluations'],
        'distinct_nontrivial': counts['nontrivial'],
        'rule': 'Every expression AST of the families below (each a full product over its alphabet; nothing sampled) is printed, '
                'compiled and evaluated by the real library through XPathEvaluator with EVERY node of each document as context, and '
                'compared (type, boolean, number bit pattern incl. signed zero, string, node identities in order) with the reference '
                'evaluator on the same AST. Token strings (family tokens) are all sequences up to length 3 (quick) / 4 (thorough) over '
                'a 30-token alphabet, checked for acceptance and value against an independent parser. Family vars: variable bindings of every '
                'type (global and local node-sets, string, number, boolean, empty node-set, a number computed from other variables) in all '
                'binary operations, filters, path continuations over 12 axes and core functions, evaluated in situ in a stylesheet for every '
                'node of 3 / 5 documents as context, including type errors and an unbound variable. A case is an expression text; '
                'non-trivial = its reference value is not empty/false/error in some context, or it is a rejection case.',
        'samples': samples or ['none'],
        'cases': counts['cases'], 'families': fam, 'fatal_outcomes': counts['fatal'],
        'distinct_reference_outcomes_per_shard_sum': sum(r['outcomes'] for r in res),
        'documents': [d.name for d in G.docs()],
        'exhaustive': True,
    }
    vlib.finish(PROP, tier, 'exploration', cov, viols, t0,
                assumptions=['reference evaluator lib/refxpath.py is the XPath 1.0 Recommendation', 'namespace nodes are identified with their declarations',
                             'numeric atoms stay in the range where C18 holds'])


if __name__ == '__main__':
    main()
