#!/usr/bin/env python3
"""C02: XPath values vs the reference evaluator, exhaustively over enumerated ASTs x documents x every context node."""
import os, sys, time, itertools, struct, math, json
sys.path.insert(0, os.path.join(os.path.dirname(os.path.abspath(__file__)), '..', 'lib'))
import vlib, refdoc as R, refxpath as X, xpgen as G, xpparse
from refxpath import num, s, fn, b, step, path, name, NODE, TEXTT, WILD, DOS

PROP = 'C02'


# ---------------------------------------------------------------------------------------------
# case generation: yields (family, text, ast_or_None(reject expected), ctxdep)

def ctx_dependent(e):
    k = e[0]
    if k in ('num', 'str'):
        return False
    if k == 'var':
        return False
    if k == 'path':
        return True
    if k == 'fn':
        if e[1] in ('last', 'position', 'lang') or (not e[2] and e[1] in ('string', 'number', 'name', 'local-name',
                                                                          'namespace-uri', 'string-length', 'normalize-space')):
            return True
        if e[1] == 'id':
            return True
        return any(ctx_dependent(a) for a in e[2])
    if k == 'bin':
        return ctx_dependent(e[2]) or ctx_dependent(e[3])
    if k in ('neg', 'group'):
        return ctx_dependent(e[1])
    if k == 'filter':
        return ctx_dependent(e[1])
    return True


def gen_cases(tier):
    thorough = tier == 'thorough'
    nums, strs, bools, sets = G.number_atoms(), G.string_atoms(), G.bool_atoms(), G.nodeset_atoms()
    atoms = nums + strs + bools + sets

    def case(fam, ast, **kw):
        return (fam, X.to_text(ast, kw.get('abbrev', True), kw.get('tight', False)), ast)

    # 0. every atom alone (literals and the simplest expressions as the top-level node)
    for a in atoms:
        yield case('atom', a)
    # 1. every single step: 13 axes x 10 node tests x 15 predicate lists, abbreviated and unabbreviated
    for st in G.steps():
        yield case('step1', path(st))
        yield case('step1-unabbrev', path(st), abbrev=False)
    # 2. two-step paths
    t5 = G.node_tests(False)
    p4 = G.predicates(False)
    first = list(G.steps(tests=t5, preds=(p4 if thorough else [[]])))
    second = list(G.steps(tests=t5, preds=p4))
    for s1 in first:
        for s2 in second:
            yield case('step2', path(s1, s2))
    # 3. abbreviations and root-anchored paths
    for st in G.steps(axes=['child', 'attribute', 'descendant', 'following-sibling'], tests=t5, preds=G.predicates()):
        yield case('abbrev', path(DOS, st, start='root'))
        yield case('abbrev', path(DOS, st))
        yield case('abbrev', path(st, start='root'))
        yield case('abbrev', path(step('parent', NODE), st))
        yield case('abbrev', path(step('child', name('a')), DOS, st))
    yield case('abbrev', ('path', 'root', []))
    # 4. filter expressions
    for P in sets:
        for pr in G.predicates():
            if not pr:
                continue
            yield case('filter', ('filter', ('group', P), pr))
            for st in G.steps(axes=['child', 'attribute', 'parent', 'preceding-sibling'], tests=t5[:3], preds=[[], [num(1)]]):
                yield case('filter', ('path', ('filter', ('group', P), pr), [st]))
    # 5. every binary operator over every pair of atoms (all type pairs)
    for op in G.BIN_OPS:
        for l in atoms:
            for r in atoms:
                yield case('binop', b(op, l, r))
                if thorough or (l in sets) != (r in sets):
                    yield case('binop-tight', b(op, l, r), tight=True)
    for l in sets:
        for r in sets:
            yield case('union', b('|', l, r))
            for r2 in sets[:4]:
                yield case('union', b('|', b('|', l, r), r2))
    # 6. unary minus
    for a in atoms:
        yield case('unary', ('neg', a))
        yield case('unary', ('neg', ('neg', a)))
        yield case('unary', b('-', num(1), ('neg', a)))
    # 7. core function library
    for c in function_cases(thorough):
        yield case('func', c)
    # 7b. bundled extension functions: EXSLT sets/math/strings/common/dynamic and xalan: set functions
    A_ = path(step('child', name('a')))
    B_ = path(step('child', name('b')))
    ALL_ = path(DOS, step('child', WILD), start='root')
    ATT_ = path(DOS, step('attribute', name('x')), start='root')
    EMP_ = path(step('child', name('nosuch')))
    TXT_ = path(DOS, step('child', TEXTT), start='root')
    nsx = [A_, B_, ALL_, ATT_, EMP_, TXT_, path(step('self', NODE)), path(step('child', WILD))]
    for f2 in ('set:difference', 'set:intersection', 'set:has-same-node', 'set:leading', 'set:trailing', 'xalan:difference',
               'xalan:intersection', 'xalan:hasSameNodes'):
        for x1 in nsx:
            for x2 in nsx:
                yield case('ext', fn(f2, x1, x2))
    for f1 in ('set:distinct', 'xalan:distinct', 'math:min', 'math:max', 'math:highest', 'math:lowest', 'str:concat'):
        for x1 in nsx:
            yield case('ext', fn(f1, x1))
            yield case('ext', fn('count', fn(f1, x1)) if f1 in ('set:distinct', 'xalan:distinct', 'math:highest', 'math:lowest') else fn('string', fn(f1, x1)))
    for v in nums:
        yield case('ext', fn('math:abs', v))
        yield case('ext', fn('str:padding', v, s('ab')))
        yield case('ext', fn('str:padding', v))
    for v in atoms:
        yield case('ext', fn('exsl:object-type', v))
    for text in ('count ( // a )', 'a | b', '1 + 2 * 3', "'s'", '..', '@ x', 'last ( )', 'a [ 1 ]', '1 +', ') (', ''):
        yield case('ext', fn('dyn:evaluate', s(text)))
        if text not in ('1 +', ') (', ''):
            yield case('ext', fn('xalan:evaluate', s(text)))
    # 8. precedence and associativity: flat sequences printed without parentheses
    ops = G.BIN_OPS
    small = [num(1), num(2), num(0), s('a'), fn('true'), path(step('child', name('a')))] if thorough else \
            [num(1), num(2), num(0), fn('true')]
    for o1 in ops:
        for o2 in ops:
            for trio in itertools.product(small, repeat=3):
                ast = G.flat_to_ast(list(trio), [o1, o2])
                yield ('prec', G.flat_text([X.to_text(t) for t in trio], [o1, o2]), ast)
    for o1 in ops:
        for o2 in ops:
            for o3 in (ops if thorough else ['or', '=', '<', '-', 'div']):
                quad = [num(3), num(2), num(1), num(2)]
                ast = G.flat_to_ast(quad, [o1, o2, o3])
                yield ('prec', G.flat_text([X.to_text(t) for t in quad], [o1, o2, o3]), ast)
    # 9. rejection / acceptance of raw token strings
    toks = ['a', '*', '@', '::', '/', '//', '.', '..', '(', ')', '[', ']', ',', '|', '+', '-', '=', '<', '1', "'s'",
            'and', 'div', 'child', 'node', 'text', 'last', 'count', '!=', 'self', 'mod']
    maxlen = 4 if thorough else 3
    for n in range(1, maxlen + 1):
        for seq in itertools.product(toks, repeat=n):
            try:
                ast = xpparse.parse_tokens(list(seq))
            except xpparse.Reject:
                ast = None
            yield ('tokens', ' '.join(seq), ast)


def function_cases(thorough):
    A = path(step('child', name('a')))
    Bn = path(step('child', name('b')))
    X_ = path(step('attribute', name('x')))
    EMPTY = path(step('child', name('nosuch')))
    SELF = path(step('self', NODE))
    ALL = path(DOS, step('child', NODE), start='root')
    ALLATT = path(DOS, step('attribute', WILD), start='root')
    nodesets = [A, Bn, X_, EMPTY, SELF, ALL, ALLATT, path(step('child', NODE)), path(DOS, step('child', name('a', 'p')), start='root'),
                path(step('namespace', WILD)), path(step('child', ('type', 'pi'))), path(step('child', ('type', 'comment')))]
    strs = [s(''), s('a'), s('abc'), s('  a  b '), s('12345'), s('t'), s('\t a\n'), s('aXbXc'), s('1.5'), s('-0'), s('en'), s('EN-us'), s('i1 i3')]
    numv = [num(-1, '-1'), num(0), num(0.5, '0.5'), num(1), num(1.5, '1.5'), num(2), num(3), num(2.5, '2.5'), b('div', num(0), num(0)),
            b('div', num(1), num(0)), ('neg', b('div', num(1), num(0))), ('neg', num(0.5, '0.5')), ('neg', num(0.2, '0.2')), num(10), num(1e10, '10000000000')]
    anyv = [num(0), num(1.5, '1.5'), b('div', num(0), num(0)), s(''), s('a'), s('0'), s(' 1 '), fn('true'), fn('false'), A, EMPTY, X_, SELF]
    out = []
    out += [fn('last'), fn('position')]
    for f in ('count', 'sum'):
        out += [fn(f, n) for n in nodesets]
    for f in ('local-name', 'namespace-uri', 'name'):
        out.append(fn(f))
        out += [fn(f, n) for n in nodesets]
    for f in ('string', 'number', 'string-length', 'normalize-space'):
        out.append(fn(f))
        out += [fn(f, v) for v in anyv + strs + (numv if f in ('string', 'number') else [])]
    for f in ('boolean', 'not'):
        out += [fn(f, v) for v in anyv + numv]
    for f in ('floor', 'ceiling', 'round'):
        out += [fn(f, v) for v in numv + [s('1.5'), s('x'), A, fn('true')]]
        # observe the sign of zero
        out += [b('div', num(1), fn(f, v)) for v in [('neg', num(0.5, '0.5')), ('neg', num(0.2, '0.2')), num(0.2, '0.2'), ('neg', num(0)), num(0)]]
    out += [fn('id', v) for v in [s('i1'), s('i3 i1'), s(' i2  i2 '), s('nosuch'), X_, path(DOS, step('attribute', name('x')), start='root'), SELF, num(1)]]
    out += [fn('lang', v) for v in [s('en'), s('EN'), s('en-US'), s('en-us'), s('e'), s(''), s('fr')]]
    two = [s(''), s('a'), s('abc'), s('b'), s('c'), s('bc'), s('aXbXc'), s('X'), A, num(1)]
    for f in ('starts-with', 'contains', 'substring-before', 'substring-after'):
        out += [fn(f, x, y) for x in two for y in two]
    out += [fn('concat', x, y) for x in two[:5] for y in two[:5]]
    out += [fn('concat', s('a'), num(1), fn('true')), fn('concat', A, s('-'), X_, s('-'), EMPTY)]
    starts = numv
    for st in starts:
        out.append(fn('substring', s('12345'), st))
        for ln in (numv if thorough else numv[:11]):
            out.append(fn('substring', s('12345'), st, ln))
    out += [fn('substring', A, num(1), num(1)), fn('substring', s(''), num(1), num(1))]
    tr = [s(''), s('a'), s('abc'), s('aabbcc'), s('bar'), s('ABC'), s('--aaa--')]
    out += [fn('translate', x, y, z) for x in tr for y in tr[:5] for z in tr[:6]]
    out += [fn('true'), fn('false')]
    return out


# ---------------------------------------------------------------------------------------------
# comparison

def ref_result(ast, ctx, doc):
    try:
        v = X.evaluate(ast, ctx)
    except X.XPathError as e:
        return 'e\x1f'
    t = X.type_of(v)
    if t == 'b':
        return 'b\x1f' + ('1' if v else '0')
    if t == 'n':
        if v != v:
            return 'n\x1fnan'
        return 'n\x1f%016x' % struct.unpack('>Q', struct.pack('>d', v))[0]
    if t == 's':
        return 's\x1f' + v
    return 'ns\x1f' + ' '.join(sorted(set(doc.path(n) for n in v)))


def norm_got(g):
    if g.startswith('n\x1f'):
        bits = int(g[2:], 16)
        d = struct.unpack('>d', struct.pack('>Q', bits))[0]
        if d != d:
            return 'n\x1fnan'
    if g.startswith('e\x1f') or g.startswith('ce\x1f'):
        return 'e\x1f'
    if g.startswith('ns\x1f'):
        # C02 decides the SET of nodes; order and duplicates of the delivered list are C12's business
        return 'ns\x1f' + ' '.join(sorted(set(g[3:].split())))
    return g


def diff_kind(exp, got, doc):
    et, gt = exp.split('\x1f')[0], got.split('\x1f')[0]
    if et != gt:
        if gt == 'e':
            return 'unexpected-error'
        if et == 'e':
            return 'accepted-invalid:' + gt
        return 'wrong-type:%s-for-%s' % (gt, et)
    if et == 'ns':
        e, g = exp[3:].split(), got[3:].split()
        if sorted(e) == sorted(g):
            return 'nodeset-order'
        extra = [x for x in g if x not in e]
        missing = [x for x in e if x not in g]
        if len(g) != len(set(g)):
            return 'nodeset-duplicates'
        if extra and not missing and all('/@xmlns' in x for x in extra):
            return 'nodeset-extra-namespace-decls'
        if extra and not missing:
            return 'nodeset-extra'
        if missing and not extra:
            return 'nodeset-missing'
        return 'nodeset-different'
    if et == 'n':
        try:
            ev = struct.unpack('>d', struct.pack('>Q', int(exp[2:], 16)))[0] if exp[2:] != 'nan' else math.nan
            gv = struct.unpack('>d', struct.pack('>Q', int(got[2:], 16)))[0] if got[2:] != 'nan' else math.nan
            if ev == gv:
                return 'number-zero-sign'
            if ev != ev or gv != gv:
                return 'number-nan'
            if math.isinf(ev) or math.isinf(gv):
                return 'number-inf'
            if abs(ev - gv) <= 1e-9 * max(1.0, abs(ev)):
                return 'number-inexact'
        except Exception:
            pass
        return 'number-wrong'
    return {'b': 'boolean-wrong', 's': 'string-wrong', 'e': 'both-error'}.get(et, 'different')


DOCS = None


def shard_main(shard, nshards, tier, mode='set'):
    docs = G.docs()
    w = vlib.Worker('xdrv', stderr_path=os.path.join(vlib.BUILD, 'tmp', 'c02.%d.err' % shard))
    nsargs = ['%s=%s' % kv for kv in sorted(G.NSMAP.items())]
    nodes_of = []
    for i, d in enumerate(docs):
        r = w.request('doc', 'd%d' % i, 'st', d.to_xml())
        assert r[0] == 'ok', r
        paths = r[1].split(' ')
        assert sorted(paths) == sorted(d.by_path.keys()), (d.name, sorted(paths), sorted(d.by_path.keys()))
        nodes_of.append([d.by_path[p] for p in paths])
    counts = {'evaluations': 0, 'cases': 0, 'nontrivial': 0, 'fatal': 0}
    fam_counts = {}
    viols = []
    samples = []
    outcomes = set()
    ORDER_FAMS = ('step1', 'step2', 'abbrev', 'filter', 'union')
    for idx, (fam, text, ast) in enumerate(gen_cases(tier)):
        if idx % nshards != shard:
            continue
        if mode == 'order' and fam not in ORDER_FAMS:
            continue
        counts['cases'] += 1
        fam_counts[fam] = fam_counts.get(fam, 0) + 1
        dep = ast is None or ctx_dependent(ast)
        use_docs = range(len(docs)) if dep else [0]
        if fam in ('tokens', 'prec', 'binop-tight'):
            use_docs = [0]
        elif fam in ('binop', 'step2', 'filter') and dep:
            use_docs = [0, 4] if fam != 'step2' else [0, 1]
        first_bad = None
        nontriv = False
        for di in use_docs:
            d = docs[di]
            try:
                r = w.request('xpall', 'd%d' % di, text, *nsargs)
            except vlib.WorkerDied as wd:
                counts['fatal'] += 1
                viols.append(('%s|fatal|%s' % (fam, text), {'expr': text, 'doc': d.name, 'how': str(wd.rc), 'stderr': wd.stderr_tail[-1500:]}))
                # reload documents in the restarted driver
                for j, dd in enumerate(docs):
                    w.request('doc', 'd%d' % j, 'st', dd.to_xml())
                first_bad = 'fatal'
                break
            if r[0] == 'ce':
                got_all = ['e\x1f'] * len(nodes_of[di])
            elif r[0] == 'ok':
                got_all = r[1:]
            else:
                got_all = ['e\x1f'] * len(nodes_of[di])
            ctxnodes = nodes_of[di] if dep else nodes_of[di][:1]
            for ni, node in enumerate(ctxnodes):
                counts['evaluations'] += 1
                if ast is None:
                    exp = 'e\x1f'
                else:
                    exp = ref_result(ast, X.Ctx(node, ns=G.NSMAP), d)
                got = norm_got(got_all[ni])
                if mode == 'order':
                    # C12: the delivered LIST must be duplicate free and in document order; value differences are C02's
                    if not (exp.startswith('ns\x1f') and got.startswith('ns\x1f')) or exp != got:
                        continue
                    raw = got_all[ni][3:].split()
                    want = [d.path(n) for n in X.evaluate(ast, X.Ctx(node, ns=G.NSMAP))]
                    if len(raw) >= 2:
                        nontriv = True
                    if raw != want and first_bad is None:
                        kind = 'nodeset-duplicates' if len(raw) != len(set(raw)) else 'nodeset-order'
                        first_bad = kind
                        viols.append(('%s|%s|%s' % (fam, kind, text),
                                      {'expr': text, 'doc': d.name, 'xml': d.to_xml(), 'context': d.path(node),
                                       'expected': ' '.join(want), 'got': ' '.join(raw)}))
                    continue
                if exp != 'e\x1f' and exp not in ('ns\x1f', 'b\x1f0', 's\x1f'):
                    nontriv = True
                outcomes.add(exp[:40])
                if exp != got and first_bad is None:
                    kind = diff_kind(exp, got, d)
                    first_bad = kind
                    viols.append(('%s|%s|%s' % (fam, kind, text),
                                  {'expr': text, 'doc': d.name, 'xml': d.to_xml(), 'context': d.path(node),
                                   'expected': exp.replace('\x1f', ':'), 'got': got_all[ni].replace('\x1f', ':')}))
            if first_bad:
                break
        if nontriv or (ast is None):
            counts['nontrivial'] += 1
        if len(samples) < 3 and idx % 9973 == shard:
            samples.append('%s: %s' % (fam, text))
    w.close()
    return {'counts': counts, 'fam': fam_counts, 'viols': viols, 'samples': samples, 'outcomes': len(outcomes)}


def replay(path_):
    rec = json.load(open(path_))
    det = rec['detail']
    w = vlib.Worker('xdrv')
    print(w.request('doc', 'd', 'st', det['xml']))
    print(w.request('xp', 'd', det['context'], det['expr'], *['%s=%s' % kv for kv in sorted(G.NSMAP.items())]))
    print('expected', det['expected'])
    w.close()


def main():
    tier, rp = vlib.tier_from_argv()
    if rp:
        return replay(rp)
    t0 = time.time()
    res = vlib.run_sharded(shard_main, (tier,))
    counts = vlib.merge_counts([r['counts'] for r in res])
    fam = vlib.merge_counts([r['fam'] for r in res])
    viols = [vlib.Violation(sig, det) for r in res for sig, det in r['viols']]
    samples = [x for r in res for x in r['samples']][:8]
    cov = {
        'evaluations': counts['evaluations'],
        'distinct_nontrivial': counts['nontrivial'],
        'rule': 'Every expression AST of the families below (each a full product over its alphabet; nothing sampled) is printed, '
                'compiled and evaluated by the real library through XPathEvaluator with EVERY node of each document as context, and '
                'compared (type, boolean, number bit pattern incl. signed zero, string, node identities in order) with the reference '
                'evaluator on the same AST. Token strings (family tokens) are all sequences up to length 3 (quick) / 4 (thorough) over '
                'a 30-token alphabet, checked for acceptance and value against an independent parser. A case is an expression text; '
                'non-trivial = its reference value is not empty/false/error in some context, or it is a rejection case.',
        'samples': samples or ['none'],
        'cases': counts['cases'], 'families': fam, 'fatal_outcomes': counts['fatal'],
        'distinct_reference_outcomes_per_shard_sum': sum(r['outcomes'] for r in res),
        'documents': [d.name for d in G.docs()],
        'exhaustive': True,
    }
    vlib.finish(PROP, tier, 'exploration', cov, viols, t0,
                assumptions=['reference evaluator lib/refxpath.py is the XPath 1.0 Recommendation', 'namespace nodes are identified with their declarations',
                             'numeric atoms stay in the range where C18 holds'])


if __name__ == '__main__':
    main()
