#!/usr/bin/env python3
"""C14: result elements/attributes get the requested expanded names; the result is namespace-well-formed; excluded and aliased
namespaces do not leak. All nests (depth 2, depth 3 reduced) of namespace-constructing instructions x prefix/URI choices."""
import os, sys, time, json, itertools
sys.path.insert(0, os.path.join(os.path.dirname(os.path.abspath(__file__)), '..', 'lib'))
import vlib, refdoc as R
import xml.parsers.expat

PROP = 'C14'
XSL = 'http://www.w3.org/1999/XSL/Transform'
STYLE_NS = {'p': 'u1', 'q': 'u2'}          # bindings on xsl:stylesheet
SRC = '<s:x xmlns:s="u3" xmlns:p="u9" p:k="v" k="w"><s:y p:m="1"/></s:x>'

# element constructors: (kind, ...)
ELEMS = ([('lre', pf, u) for (pf, u) in [(None, None), (None, 'u1'), ('p', 'u1'), ('p', 'u2'), ('q', 'u2'), ('n0', 'u1'),
                                         # a prefix that merely BEGINS with another one in use, bound to the namespace an attribute will ask for
                                         ('pq', 'u2')]]
         + [('elem', nm, ns) for nm in ('e', 'p:e', 'q:e') for ns in (None, '', 'u1', 'u2', '{u}')]
         + [('copy',), ('copyof',)])
ATTRS = ([None]
         + [('attr', nm, ns) for nm in ('a', 'p:a', 'q:a') for ns in (None, '', 'u1', 'u2')]
         + [('attr', 'xml:lang', None), ('lreattr', 'p:b'), ('lreattr', 'b'), ('aset',),
            ('attr2', 'p:a', 'u1', 'q:a', 'u1'), ('attr2', 'a', 'u2', 'x:a', None), ('attr2', 'p:a', 'u2', 'p:a', None),
            # several literal attributes in different namespaces on one literal result element: each of their prefixes is needed
            ('lreattr2', 'p:b', 'q:c'), ('lreattr2', 'q:c', 'p:b'), ('lreattr2', 'b', 'q:c', 'p:d')])


def esc(v):
    return v.replace('&', '&amp;').replace('"', '&quot;').replace('<', '&lt;')


def gen_elem(e, attrs, inner_fn, scope=None):
    """-> (xsl text, reference (uri, local, attrs dict (uri,local)->value, children list)) or None if the combination is not
    meaningful. scope: namespaces in scope IN THE STYLESHEET at this instruction (prefix -> URI, '' = default);
    inner_fn(scope) builds the nested constructor, which sees the declarations of an enclosing literal result element."""
    scope = dict(STYLE_NS) if scope is None else dict(scope)
    k = e[0]
    inner_scope = dict(scope)
    if k == 'lre' and e[2] is not None:
        inner_scope[e[1] or ''] = e[2]
    aset = any(a and a[0] == 'aset' for a in attrs)
    ainstr = ''
    ref_attrs = {}
    if aset:
        ref_attrs[('u1', 'z')] = '1'
        ref_attrs[('', 'z')] = '2'
    lre_attr_text = ''
    for a in attrs:
        if a is None or a[0] == 'aset':
            continue
        if a[0] in ('lreattr', 'lreattr2'):
            if k != 'lre':
                return None
            for j, nm in enumerate(a[1:]):
                lre_attr_text += ' %s="L%s"' % (nm, j or '')
                ref_attrs[(inner_scope[nm.split(':')[0]] if ':' in nm else '', nm.split(':')[-1])] = 'L%s' % (j or '')
    for a in attrs:
        if a is None or a[0] in ('aset', 'lreattr', 'lreattr2'):
            continue
        specs = [(a[1], a[2])] if a[0] == 'attr' else [(a[1], a[2]), (a[3], a[4])]
        for i, (nm, ns) in enumerate(specs):
            val = 'V%d' % i
            xns = ' xmlns:x="u2"' if nm.startswith('x:') else ''
            ainstr += '<xsl:attribute name="%s"%s%s>%s</xsl:attribute>' % (nm, '' if ns is None else ' namespace="%s"' % ns, xns, val)
            pf, lo = (nm.split(':') + [None])[:2] if ':' in nm else (None, nm)
            if ns is not None:
                uri = ns
            elif pf == 'xml':
                uri = R.XML_NS
            elif pf == 'x':
                uri = 'u2'
            elif pf:
                uri = inner_scope[pf]
            else:
                uri = ''
            ref_attrs[(uri, lo)] = val
    uas = ' xsl:use-attribute-sets="s1"' if aset else ''
    uas2 = ' use-attribute-sets="s1"' if aset else ''
    inner = inner_fn(inner_scope) if inner_fn else None
    if inner_fn and inner is None:
        return None
    body = ainstr + (inner[0] if inner else '')
    kids = [inner[1]] if inner else []
    if k == 'lre':
        pf, u = e[1], e[2]
        qn = (pf + ':e') if pf else 'e'
        decl = ''
        if u is not None:
            decl = ' xmlns%s="%s"' % ((':' + pf) if pf else '', u)
        elif pf and pf not in scope:
            return None
        txt = '<%s%s%s%s>%s</%s>' % (qn, decl, uas, lre_attr_text, body, qn)
        ref = (inner_scope.get(pf or '', ''), 'e', ref_attrs, kids)
        return txt, ref
    if k == 'elem':
        nm, ns = e[1], e[2]
        nsattr = ''
        if ns == '{u}':
            nsattr = ' namespace="{concat(\'u\',\'2\')}"'
            uri = 'u2'
        elif ns is not None:
            nsattr = ' namespace="%s"' % ns
            uri = ns
        else:
            uri = scope[nm.split(':')[0]] if ':' in nm else scope.get('', '')
        txt = '<xsl:element name="%s"%s%s>%s</xsl:element>' % (nm, nsattr, uas2, body)
        return txt, (uri, nm.split(':')[-1], ref_attrs, kids)
    if k == 'copy':
        txt = '<xsl:for-each select="/*"><xsl:copy%s>%s</xsl:copy></xsl:for-each>' % (uas2, body)
        return txt, ('u3', 'x', ref_attrs, kids)
    if k == 'copyof':
        if attrs != [None] or inner_fn:
            return None
        txt = '<xsl:copy-of select="/*"/>'
        return txt, ('u3', 'x', {('u9', 'k'): 'v', ('', 'k'): 'w'}, [('u3', 'y', {('u9', 'm'): '1'}, [])])
    return None


def ref_canon(r):
    uri, lo, attrs, kids = r
    return ('elem', uri, lo, tuple(sorted((u, l, v) for (u, l), v in attrs.items())), tuple(ref_canon(k) for k in kids))


def gen_cases(tier):
    """yields (family, excl, xsl fragment, reference, component fragments)"""
    thorough = tier == 'thorough'
    for excl in (None, 'p', 'p q'):
        for e1 in ELEMS:
            for a1 in ATTRS:
                g1 = gen_elem(e1, [a1], None)
                if g1 is None:
                    continue
                if excl is None or (thorough or a1 is None):
                    yield ('one', excl, g1[0], g1[1], ())
                if e1[0] == 'copyof':
                    continue
                if excl not in (None, 'p'):
                    continue
                for e2 in ELEMS:
                    for a2 in (ATTRS if (thorough or a1 is None or e2[0] == 'lre') else [None]):
                        if not thorough and a1 is not None and a2 is not None and excl:
                            continue
                        g2 = gen_elem(e2, [a2], None)
                        if g2 is None:
                            continue
                        g = gen_elem(e1, [a1], lambda sc: gen_elem(e2, [a2], None, sc))
                        if g is None:
                            continue
                        yield ('two', excl, g[0], g[1], (g1[0], g2[0]))
                        if thorough and a1 is None and a2 is None and excl is None:
                            for e3 in ELEMS[:9]:
                                g3 = gen_elem(e3, [None], None)
                                if g3 is None:
                                    continue
                                gg = gen_elem(e1, [None], lambda sc: gen_elem(e2, [None], lambda sc2: gen_elem(e3, [None], None, sc2), sc))
                                if gg:
                                    yield ('three', excl, gg[0], gg[1], (g1[0], g2[0], g3[0]))


def stylesheet(excl, frags):
    ex = '' if excl is None else ' exclude-result-prefixes="%s"' % excl
    parts = ['<xsl:stylesheet version="1.0" xmlns:xsl="%s" xmlns:p="u1" xmlns:q="u2"%s>' % (XSL, ex),
             '<xsl:attribute-set name="s1"><xsl:attribute name="p:z">1</xsl:attribute><xsl:attribute name="z">2</xsl:attribute></xsl:attribute-set>',
             '<xsl:template match="/"><out>']
    for i, f in enumerate(frags):
        parts.append('<c i="%d">%s</c>' % (i, f))
    parts.append('</out></xsl:template></xsl:stylesheet>')
    return ''.join(parts)


def declared_uris(n, acc):
    for p, u in n.nsdecls:
        acc.append((p, u, n))
    for c in n.children:
        if c.kind == R.ELEM:
            declared_uris(c, acc)


def uris_used(n, acc):
    acc.add(n.uri or '')
    for a in n.attrs:
        acc.add(a.uri or '')
    for c in n.children:
        if c.kind == R.ELEM:
            uris_used(c, acc)


def shard_main(shard, nshards, tier):
    w = vlib.Worker('xdrv', stderr_path=os.path.join(vlib.BUILD, 'tmp', 'c14.%d.err' % shard))
    counts = {'evaluations': 0, 'transformations': 0, 'nontrivial': 0, 'explained_by_failing_component': 0}
    viols = []
    samples = []
    B = 24
    groups = {}
    ones = []
    for idx, case in enumerate(gen_cases(tier)):
        if case[0] == 'one' and case[1] is None:
            ones.append(case)        # every shard runs all single constructors first: they explain failures of the nests
        if idx % nshards != shard:
            continue
        groups.setdefault(case[1], []).append(case)
    failing_single = set()

    def check_one(case, cnode):
        fam, excl, frag, ref = case[:4]
        counts['evaluations'] += 1
        kids = [c for c in cnode.children if c.kind == R.ELEM]
        if len(ref[2]) or ref[0]:
            counts['nontrivial'] += 1
        got = R.canon(kids[0]) if len(kids) == 1 else ('malformed', len(kids))
        exp = ref_canon(ref)
        if got != exp:
            return 'wrong-expanded-names', {'expected': exp, 'got': got}
        # excluded namespaces must not be declared unless a name needs them
        if excl:
            exuris = set()
            for tok in excl.split():
                if tok in STYLE_NS:
                    exuris.add(STYLE_NS[tok])
            used = set()
            uris_used(kids[0], used)
            decls = []
            declared_uris(kids[0], decls)
            for p, u, n in decls:
                if u in exuris and u not in used:
                    return 'excluded-namespace-declared', {'uri': u, 'prefix': p}
        return None, None

    def run(batch, excl):
        xsl = stylesheet(excl, [c[2] for c in batch])
        try:
            r = w.request('tr', xsl, SRC)
        except vlib.WorkerDied as wd:
            if len(batch) == 1:
                note(batch[0], 'fatal', {'xsl': xsl, 'stderr': wd.stderr_tail[-1500:]})
                return
            r = None
        counts['transformations'] += 1
        out = None
        why = None
        if r is not None:
            if r[0] != '0':
                why = ('transform-error', r[1][:200])
            else:
                try:
                    out = R.parse_xml(r[2])
                except xml.parsers.expat.ExpatError as e:
                    why = ('not-namespace-well-formed', str(e))
        if out is None:
            if len(batch) == 1:
                note(batch[0], why[0] if why else 'fatal', {'xsl': xsl, 'why': why, 'output': (r[2][:1500] if r else None), 'excl': excl})
                return
            mid = len(batch) // 2
            run(batch[:mid], excl)
            run(batch[mid:], excl)
            return
        cs = [c for c in out.docel.children if c.kind == R.ELEM]
        for case, cnode in zip(batch, cs):
            kind, det = check_one(case, cnode)
            if kind:
                note(case, kind, dict(det, xsl_fragment=case[2], excl=excl))

    def note(case, kind, det):
        if collecting[0]:
            failing_single.add(case[2])
            if shard == 0:
                viols.append(('one|%s|%s' % (kind, case[2]), det))
            return
        comps = case[4] if len(case) > 4 else ()
        if any(c in failing_single for c in comps):
            counts['explained_by_failing_component'] = counts.get('explained_by_failing_component', 0) + 1
            return
        if case[0] == 'one' and case[1] is None:
            return      # already reported by the pre-pass (shard 0)
        viols.append(('%s|%s|%s%s' % (case[0], kind, case[2], ' [exclude-result-prefixes=%s]' % case[1] if case[1] else ''), det))

    collecting = [True]
    for i in range(0, len(ones), B):
        run(ones[i:i + B], None)
    collecting[0] = False

    for excl, cases in groups.items():
        for i in range(0, len(cases), B):
            run(cases[i:i + B], excl)
            if len(samples) < 2 and i == 0 and cases:
                samples.append('exclude=%s: %s' % (excl, cases[0][2]))
    w.close()
    return {'counts': counts, 'viols': viols, 'samples': samples}


# ---------------------------------------------------------------------------------------------
# family "copy": xsl:copy / xsl:copy-of of source elements whose prefixes and default namespace are REDECLARED at different depths

def copy_docs(tier):
    """three nested levels; each level may redeclare prefix p and the default namespace, its element is prefixed or not, the
    innermost may carry a prefixed attribute"""
    thorough = tier == 'thorough'
    E = R.E
    out = []
    PD = [None, 'o2', 'o1']            # declaration of p at levels 2, 3 (level 1 declares p=o1)
    DD = [None, 'd2', '']              # default namespace declaration at levels 2, 3 ('' undeclares)
    i = 0
    for d1 in (None, 'd1'):
        for pf1 in (True, False):
            for p2, dd2, pf2 in itertools.product(PD, DD, (True, False)):
                for p3, dd3, pf3 in itertools.product(PD, DD, (True, False)):
                    for at in (True, False):
                        i += 1
                        if not thorough and i % 5:
                            continue

                        def ns(pd, dd):
                            o = []
                            if pd is not None:
                                o.append(('p', pd))
                            if dd is not None:
                                o.append(('', dd))
                            return o
                        l3 = E('p:c' if pf3 else 'c', ([('p:r', '3')] if at else []) + [('k', 'v')], [E('leaf' if not pf3 else 'p:leaf', None, ['t'])], ns=ns(p3, dd3))
                        l2 = E('p:b' if pf2 else 'b', [('p:k', '2')], [l3, E('p:s' if pf3 else 's')], ns=ns(p2, dd2))
                        l1 = E('p:a' if pf1 else 'a', None, [l2, E('p:e')], ns=[('p', 'o1')] + ([('', d1)] if d1 else []))
                        try:
                            out.append(R.make_doc([l1], name='CP%d' % i))
                        except Exception:
                            pass
    return out


COPY_SHEETS = [
    ('identity', '<xsl:template match="@*|node()"><xsl:copy><xsl:apply-templates select="@*|node()"/></xsl:copy></xsl:template>'),
    ('copy-of-root', '<xsl:template match="/"><out><xsl:copy-of select="/*"/></out></xsl:template>'),
    ('copy-of-inner-under-conflicting-wrapper', '<xsl:template match="/"><w xmlns:p="other" xmlns="dother"><xsl:copy-of select="/*/*[1]/*[1]"/><xsl:copy-of select="/*/*[1]/*[1]/*"/></w></xsl:template>'),
    ('shallow-copies-flat', '<xsl:template match="/"><out><xsl:for-each select="//*"><xsl:copy><xsl:copy-of select="@*"/></xsl:copy></xsl:for-each></out></xsl:template>'),
    ('identity-with-wrappers', '<xsl:template match="*"><g><xsl:copy><xsl:apply-templates select="@*|node()"/></xsl:copy></g></xsl:template>'
                               '<xsl:template match="@*|text()"><xsl:copy/></xsl:template>'),
    ('copy-under-copied-parent', '<xsl:template match="/"><out><xsl:for-each select="/*/*[1]"><xsl:copy><xsl:copy-of select="*[1]"/><xsl:for-each select="*[1]/*"><xsl:copy><xsl:copy-of select="@*"/></xsl:copy></xsl:for-each></xsl:copy></xsl:for-each></out></xsl:template>'),
]


def copy_expected(kind, d):
    def full(n):
        if n.kind == R.TEXT:
            return ['text', n.value]
        return ['elem', n.uri or '', n.local, sorted([a.uri or '', a.local, a.value] for a in n.attrs), [full(c) for c in n.children]]

    def shallow(n, kids):
        return ['elem', n.uri or '', n.local, sorted([a.uri or '', a.local, a.value] for a in n.attrs), kids]
    a = d.docel
    b_ = a.children[0]
    c = b_.children[0]
    if kind == 'identity':
        return full(a)
    if kind == 'copy-of-root':
        return ['elem', '', 'out', [], [full(a)]]
    if kind == 'copy-of-inner-under-conflicting-wrapper':
        return ['elem', 'dother', 'w', [], [full(c)] + [full(x) for x in c.children]]
    if kind == 'shallow-copies-flat':
        return ['elem', '', 'out', [], [shallow(n, []) for n in d.nodes if n.kind == R.ELEM]]
    if kind == 'identity-with-wrappers':
        def wrap(n):
            if n.kind == R.TEXT:
                return ['text', n.value]
            return ['elem', '', 'g', [], [shallow(n, [wrap(k) for k in n.children])]]
        return wrap(a)
    if kind == 'copy-under-copied-parent':
        return ['elem', '', 'out', [], [shallow_noattr(b_, [full(c)] + [shallow(x, []) for x in c.children])]]


def shallow_noattr(n, kids):
    return ['elem', n.uri or '', n.local, [], kids]


def copy_canon(n):
    if n.kind == R.TEXT:
        return ['text', n.value]
    return ['elem', n.uri or '', n.local, sorted([a.uri or '', a.local, a.value] for a in n.attrs), [copy_canon(c) for c in n.children if c.kind in (R.ELEM, R.TEXT)]]


def copy_shard(shard, nshards, tier):
    w = vlib.Worker('xdrv', stderr_path=os.path.join(vlib.BUILD, 'tmp', 'c14c.%d.err' % shard))
    counts = {'copy_evaluations': 0, 'copy_nontrivial': 0}
    viols = []
    samples = []
    docs = copy_docs(tier)
    for di, d in enumerate(docs):
        if di % nshards != shard:
            continue
        xml_ = d.to_xml()
        shape = ' '.join('%s{%s}' % (n.qname, ','.join('%s=%s' % (p or '#default', u) for p, u in n.nsdecls)) for n in d.nodes if n.kind == R.ELEM and n.nsdecls)
        for kind, body in COPY_SHEETS:
            xsl = '<xsl:stylesheet version="1.0" xmlns:xsl="%s">%s</xsl:stylesheet>' % (XSL, body)
            counts['copy_evaluations'] += 1
            try:
                r = w.request('tr', xsl, xml_)
            except vlib.WorkerDied as wd:
                viols.append(('copy|fatal|%s|%s' % (kind, shape), {'xml': xml_, 'stderr': wd.stderr_tail[-1200:]}))
                continue
            if r[0] != '0':
                viols.append(('copy|transform-error|%s|%s' % (kind, shape), {'xml': xml_, 'xsl': xsl, 'error': r[1][:300]}))
                continue
            try:
                out = R.parse_xml(r[2])
            except xml.parsers.expat.ExpatError as e:
                viols.append(('copy|not-namespace-well-formed|%s|%s' % (kind, shape), {'xml': xml_, 'xsl': xsl, 'output': r[2][:1200], 'why': str(e)}))
                continue
            exp = copy_expected(kind, d)
            got = copy_canon(out.docel)
            counts['copy_nontrivial'] += 1
            if got != exp:
                viols.append(('copy|wrong-expanded-names|%s|%s' % (kind, shape), {'xml': xml_, 'xsl': xsl, 'output': r[2][:1200], 'expected': exp, 'got': got}))
        if len(samples) < 1:
            samples.append('copy: %s x %d stylesheets' % (xml_[:120], len(COPY_SHEETS)))
    w.close()
    return {'counts': counts, 'viols': viols, 'samples': samples}


def alias_cases():
    """namespace-alias: the stylesheet-side URI must not appear in the result"""
    out = []
    for rp in ('r', '#default'):
        xsl = ('<xsl:stylesheet version="1.0" xmlns:xsl="%s" xmlns:a="uA" xmlns:r="uR" %s><xsl:namespace-alias stylesheet-prefix="a" result-prefix="%s"/>'
               '<xsl:template match="/"><a:e a:t="1" u="2"><a:f/><xsl:element name="a:g"/><g2 xmlns:z="uA"/></a:e></xsl:template></xsl:stylesheet>'
               % (XSL, 'xmlns="uD"' if rp == '#default' else '', rp))
        out.append((rp, xsl))
    return out


def main():
    tier, rp = vlib.tier_from_argv()
    if rp:
        print(json.dumps(json.load(open(rp))['detail'], indent=1)[:6000])
        return
    t0 = time.time()
    res = vlib.run_sharded(shard_main, (tier,))
    cres = vlib.run_sharded(copy_shard, (tier,))
    counts = vlib.merge_counts([r['counts'] for r in res] + [r['counts'] for r in cres])
    counts['evaluations'] += counts.get('copy_evaluations', 0)
    counts['nontrivial'] += counts.get('copy_nontrivial', 0)
    viols = [vlib.Violation(sig, det) for r in res + cres for sig, det in r['viols']]
    # alias checks (few, in the parent)
    w = vlib.Worker('xdrv')
    for rpfx, xsl in alias_cases():
        r = w.request('tr', xsl, SRC)
        counts['evaluations'] += 1
        if r[0] != '0':
            viols.append(vlib.Violation('alias|transform-error|%s' % rpfx, {'xsl': xsl, 'err': r[1]}))
            continue
        try:
            d = R.parse_xml(r[2])
        except Exception as e:
            viols.append(vlib.Violation('alias|not-well-formed|%s' % rpfx, {'xsl': xsl, 'out': r[2], 'err': str(e)}))
            continue
        want = 'uR' if rpfx == 'r' else 'uD'
        e0 = d.docel
        names = [(e0.uri, e0.local)] + [(c.uri, c.local) for c in e0.children if c.kind == R.ELEM]
        if (e0.uri, e0.local) != (want, 'e') or names[1] != (want, 'f'):
            viols.append(vlib.Violation('alias|wrong-names|%s' % rpfx, {'xsl': xsl, 'out': r[2], 'names': names}))
        # xsl:element name="a:g" is NOT a literal result element: it keeps the stylesheet URI by definition (name resolved in stylesheet scope)
    w.close()
    cov = {
        'evaluations': counts['evaluations'],
        'distinct_nontrivial': counts['nontrivial'],
        'rule': 'Every nest of depth 1 and 2 (depth 3 without attributes in thorough) of element constructors {LRE with 6 prefix/URI choices incl. '
                'the same prefix rebound to another URI and a default namespace, xsl:element name in {e,p:e,q:e} x namespace in {absent, empty, '
                'u1, u2, AVT}, xsl:copy and xsl:copy-of of a source element carrying its own namespace nodes (prefix p bound to a different '
                'URI than in the stylesheet)} x attribute constructors {xsl:attribute name in {a,p:a,q:a,xml:lang} x namespace in {absent, '
                'empty, u1, u2}, LRE attributes, attribute sets, pairs of attributes that collide on prefix or on expanded name} x '
                'exclude-result-prefixes in {-, p, p q, #default}. The output must parse namespace-well-formed (expat with namespaces: no '
                'unbound prefix, no duplicate expanded attribute name) and the tree of expanded element/attribute names and values must equal '
                'the requested one; an excluded namespace may be declared only where a name needs it; namespace-alias moves LRE names to the '
                'result URI. Family copy: every source document with three nested levels, each redeclaring (or not) prefix p and the default '
                'namespace (incl. xmlns=""), elements prefixed or not, a prefixed attribute (2592 documents; quick: a fifth) x 6 copying '
                'stylesheets (identity, copy-of, copy-of under a wrapper with conflicting bindings, shallow copies in a flat list, identity with '
                'interleaved no-namespace wrappers, copies under a copied parent): the expanded names of the copies equal the source\'s. '
                'Non-trivial = a namespaced element or any attribute is requested.',
        'samples': ([x for r in res for x in r['samples']][:4] + [x for r in cres for x in r['samples']][:1]) or ['none'],
        'transformations': counts['transformations'],
        'exhaustive': True,
    }
    vlib.finish(PROP, tier, 'exploration', cov, viols, t0, assumptions=['expat (namespace mode) as the judge of namespace well-formedness'])


if __name__ == '__main__':
    main()
